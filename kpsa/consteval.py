"""Constant evaluator: evaluates module/class-level constants from the AST without running repo code."""
from __future__ import annotations

import ast
from collections import OrderedDict
from typing import Optional

from .errors import AnalysisError
from .model import Program, Module, ClassInfo


class NotConst(Exception):
    pass


class EnumMember:
    __slots__ = ('cls', 'name', 'value')

    def __init__(self, cls: str, name: str, value):
        self.cls = cls
        self.name = name
        self.value = value

    def __eq__(self, other):
        return isinstance(other, EnumMember) and self.cls == other.cls and self.name == other.name

    def __hash__(self):
        return hash((self.cls, self.name))

    def __lt__(self, other):
        return self.value < other.value

    def __repr__(self):
        return f'{self.cls.rpartition(".")[2]}.{self.name}'


class Instance:
    """A value object of a kernpy class built from constants: the attributes its __init__ stores (interpreted, never run)."""
    def __init__(self, ci):
        self.ci = ci
        self.attrs = {}

    def __repr__(self):
        return f'<{self.ci.name} {self.attrs!r}>'


class ClassRef:
    def __init__(self, ci: ClassInfo):
        self.ci = ci

    def __repr__(self):
        return f'<class {self.ci.qualname}>'

    def __eq__(self, other):
        return isinstance(other, ClassRef) and other.ci is self.ci

    def __hash__(self):
        return hash(self.ci.qualname)


_SAFE_METHODS = {
    str: {'upper', 'lower', 'replace', 'join', 'strip', 'lstrip', 'rstrip', 'split', 'startswith', 'endswith',
          'format', 'count', 'title', 'capitalize', 'partition', 'rpartition', 'rsplit', 'isdigit', 'isalpha', 'islower', 'isupper',
          'find', 'index', 'splitlines', 'translate', 'removeprefix', 'removesuffix', 'isnumeric', 'isdecimal', 'isalnum', 'isspace'},
    dict: {'keys', 'values', 'items', 'get', 'copy'},
    list: {'copy', 'index', 'count'},
    tuple: {'index', 'count'},
    set: {'copy', 'union', 'difference', 'intersection', 'issubset', 'issuperset'},
    frozenset: {'copy', 'union', 'difference', 'intersection', 'issubset', 'issuperset'},
}

_SAFE_BUILTINS = {'sorted': sorted, 'list': list, 'set': set, 'dict': dict, 'tuple': tuple, 'len': len, 'str': str,
                  'int': int, 'range': range, 'min': min, 'max': max, 'sum': sum, 'frozenset': frozenset,
                  'abs': abs, 'bool': bool, 'reversed': lambda x: list(reversed(x)), 'enumerate': lambda x: list(enumerate(x)),
                  'zip': lambda *a: list(zip(*a)), 'any': any, 'all': all, 'ord': ord, 'chr': chr, 'divmod': divmod, 'float': float,
                  'filter': lambda f, it: [x for x in it if (f(x) if f is not None else x)], 'map': lambda f, *its: [f(*xs) for xs in zip(*its)],
                  'next': lambda it, *d: (list(it)[0] if list(it) else d[0])}


class ConstEval:
    def __init__(self, prog: Program):
        self.prog = prog
        self._enums = {}
        self._busy = set()

    # -------------------------------------------------------------- enums
    def enum(self, ci: ClassInfo) -> 'OrderedDict[str, EnumMember]':
        """name -> member (aliases map to the canonical member object)."""
        if ci.qualname in self._enums:
            return self._enums[ci.qualname]
        members: 'OrderedDict[str, EnumMember]' = OrderedDict()
        by_value = []
        counter = 0
        for st in ci.node.body:
            if not isinstance(st, ast.Assign) or len(st.targets) != 1 or not isinstance(st.targets[0], ast.Name):
                continue
            name = st.targets[0].id
            if name.startswith('_'):
                continue
            v = st.value
            if isinstance(v, ast.Call) and isinstance(v.func, ast.Name) and v.func.id == 'auto':
                counter += 1
                val = counter
            elif isinstance(v, ast.Name) and v.id in members:
                members[name] = members[v.id]
                continue
            else:
                try:
                    val = self.eval(v, ci.module, None, {})
                except NotConst:
                    raise AnalysisError(f'{ci.loc}: enum member {ci.name}.{name} is not a constant')
                if isinstance(val, int) and not isinstance(val, bool):
                    counter = val
            for ev, em in by_value:
                if ev == val and type(ev) is type(val):
                    members[name] = em
                    break
            else:
                em = EnumMember(ci.qualname, name, val)
                members[name] = em
                by_value.append((val, em))
        self._enums[ci.qualname] = members
        return members

    def enum_canonical(self, ci: ClassInfo):
        out = []
        for n, m in self.enum(ci).items():
            if m.name == n:
                out.append(m)
        return out

    # -------------------------------------------------------------- anchors
    def _module_value(self, b, name: str):
        """Value of a module-level binding INCLUDING the module-level statements that change the object in place after it
        (`TABLE.update({...})`, `TABLE[k] = v`, `LIST.append(x)`, `SET |= {...}`): a table that is completed after its
        definition is what the program sees.  A mutation the evaluator does not model makes the name non-constant."""
        import copy as _copy
        val = self.eval(b.value, b.module, None, {})
        body = b.module.tree.body
        try:
            start = body.index(b.node) + 1
        except ValueError:
            return val
        muts = []
        for st in body[start:]:
            if isinstance(st, (ast.FunctionDef, ast.AsyncFunctionDef, ast.ClassDef, ast.Import, ast.ImportFrom)):
                continue
            hit = None
            if isinstance(st, ast.Expr) and isinstance(st.value, ast.Call) and isinstance(st.value.func, ast.Attribute) \
                    and isinstance(st.value.func.value, ast.Name) and st.value.func.value.id == name:
                hit = ('call', st.value.func.attr, st.value)
            elif isinstance(st, ast.Assign) and any(isinstance(t, ast.Subscript) and isinstance(t.value, ast.Name) and t.value.id == name for t in st.targets):
                hit = ('setitem', None, st)
            elif isinstance(st, ast.AugAssign) and isinstance(st.target, ast.Name) and st.target.id == name:
                hit = ('aug', type(st.op).__name__, st)
            elif isinstance(st, ast.Delete) and any(isinstance(t, ast.Subscript) and isinstance(t.value, ast.Name) and t.value.id == name for t in st.targets):
                raise NotConst(f'{name} is changed by `del` after its definition')
            elif isinstance(st, (ast.Assign, ast.AnnAssign)) and any(isinstance(n, ast.Name) and n.id == name and isinstance(n.ctx, ast.Store) for n in ast.walk(st)):
                break       # re-bound: a later binding (resolve() returns the last one)
            if hit:
                muts.append(hit)
        if not muts:
            return val
        try:
            val = _copy.copy(val)
        except Exception:
            raise NotConst(f'{name} is changed in place after its definition')
        cell = [val]
        ev = lambda n: self.eval(n, b.module, None, {name: cell[0]})      # the statements may read the table they complete
        for kind, what, st in muts:
            val = cell[0]
            try:
                if kind == 'call':
                    args = [ev(a) for a in st.args]
                    if st.keywords:
                        raise NotConst('keyword')
                    if what in ('update', 'append', 'extend', 'add', 'setdefault') and hasattr(val, what):
                        getattr(val, what)(*args)
                    else:
                        raise NotConst(f'{name}.{what}(...) after its definition is not modelled')
                elif kind == 'setitem':
                    v = ev(st.value)
                    for t in st.targets:
                        val[ev(t.slice)] = v
                elif kind == 'aug':
                    v = ev(st.value)
                    if what == 'BitOr':
                        val = val | v
                    elif what == 'Add':
                        val = val + v
                    else:
                        raise NotConst(f'{name} {what}= after its definition is not modelled')
            except NotConst:
                raise
            except Exception as e:
                raise NotConst(f'in-place change of {name} failed: {e}')
            cell[0] = val
        return cell[0]

    def module_const(self, modname: str, name: str):
        node, mod = self.prog.const_node(modname, name)
        b = self.prog.resolve(self.prog.module(modname), name)
        try:
            if b is not None and b.kind == 'assign' and b.value is node:
                return self._module_value(b, name)
            return self.eval(node, mod)
        except NotConst as e:
            raise AnalysisError(f'{modname}.{name} is not a constant the evaluator can compute: {e}')

    def class_const(self, cls_qualname: str, name: str):
        ci = self.prog.cls(cls_qualname)
        r = self.prog.find_class_attr(ci, name)
        if r is None:
            raise AnalysisError(f'anchor class constant vanished: {cls_qualname}.{name}')
        node, owner = r
        try:
            return self.eval(node, owner.module, owner)
        except NotConst as e:
            raise AnalysisError(f'{cls_qualname}.{name} is not a constant the evaluator can compute: {e}')

    def try_eval(self, node, mod: Module, cls: Optional[ClassInfo] = None, env=None):
        try:
            return True, self.eval(node, mod, cls, env)
        except NotConst:
            return False, None

    # -------------------------------------------------------------- evaluation
    def eval(self, node, mod: Module, cls: Optional[ClassInfo] = None, env=None):
        env = env if env is not None else {}
        ev = lambda n: self.eval(n, mod, cls, env)
        if isinstance(node, ast.Constant):
            return node.value
        if isinstance(node, ast.Lambda):
            a = node.args
            if a.vararg or a.kwarg or a.kwonlyargs or a.defaults:
                raise NotConst('lambda signature')
            names = [x.arg for x in a.posonlyargs + a.args]
            outer = dict(env)

            def fn(*args, _n=node, _names=names, _outer=outer):
                if len(args) != len(_names):
                    raise NotConst('lambda arity')
                e2 = dict(_outer)
                e2.update(zip(_names, args))
                return self.eval(_n.body, mod, cls, e2)
            return fn
        if isinstance(node, ast.Name):
            if node.id in env:
                return env[node.id]
            if node.id in ('True', 'False', 'None'):
                return {'True': True, 'False': False, 'None': None}[node.id]
            if cls is not None:
                r = self.prog.find_class_attr(cls, node.id) if node.id in cls.attrs else None
                if r is not None:
                    return self._guard(('c', cls.qualname, node.id), lambda: self.eval(r[0], r[1].module, r[1], {}))
            b = self.prog.resolve(mod, node.id)
            if b is None:
                raise NotConst(f'unresolved name {node.id}')
            if b.kind == 'assign':
                return self._guard(('m', b.module.name, node.id), lambda: self._module_value(b, node.id))
            if b.kind == 'class':
                return ClassRef(b.value)
            raise NotConst(f'name {node.id} is a {b.kind}')
        if isinstance(node, ast.Attribute):
            base = ev(node.value) if not (isinstance(node.value, ast.Name) and node.value.id in ('cls', 'self')
                                          and cls is not None and node.value.id not in env) else ClassRef(cls)
            if isinstance(base, ClassRef):
                ci = base.ci
                if self.prog.is_enum(ci):
                    mem = self.enum(ci)
                    if node.attr in mem:
                        return mem[node.attr]
                    if node.attr == '__members__':
                        return OrderedDict(mem)
                if node.attr == '__name__':
                    return ci.name
                r = self.prog.find_class_attr(ci, node.attr)
                if r is not None:
                    return self._guard(('c', r[1].qualname, node.attr), lambda: self.eval(r[0], r[1].module, r[1], {}))
                if node.attr in ci.nested:
                    return ClassRef(ci.nested[node.attr])
                raise NotConst(f'{ci.name}.{node.attr}')
            if isinstance(base, Instance):
                if node.attr in base.attrs:
                    return base.attrs[node.attr]
                r = self.prog.find_class_attr(base.ci, node.attr)
                if r is not None:
                    return self._guard(('c', r[1].qualname, node.attr), lambda: self.eval(r[0], r[1].module, r[1], {}))
                raise NotConst(f'attribute {node.attr} of a {base.ci.name} object')
            if isinstance(base, EnumMember):
                if node.attr == 'value':
                    return base.value
                if node.attr in ('name', '_name_'):
                    return base.name
                raise NotConst(f'enum attribute {node.attr}')
            raise NotConst(f'attribute {node.attr} of {type(base).__name__}')
        if isinstance(node, (ast.List, ast.Tuple, ast.Set)):
            vals = []
            for e in node.elts:
                if isinstance(e, ast.Starred):
                    vals.extend(ev(e.value))
                else:
                    vals.append(ev(e))
            if isinstance(node, ast.List):
                return vals
            if isinstance(node, ast.Tuple):
                return tuple(vals)
            return set(vals)
        if isinstance(node, ast.Dict):
            d = OrderedDict()
            for k, v in zip(node.keys, node.values):
                if k is None:
                    d.update(ev(v))
                else:
                    d[ev(k)] = ev(v)
            return d
        if isinstance(node, (ast.ListComp, ast.SetComp, ast.GeneratorExp, ast.DictComp)):
            out = []
            self._comp(node, 0, mod, cls, dict(env), out)
            if isinstance(node, ast.SetComp):
                return set(out)
            if isinstance(node, ast.DictComp):
                return OrderedDict(out)
            return out
        if isinstance(node, ast.BinOp):
            l, r = ev(node.left), ev(node.right)
            try:
                return _BINOPS[type(node.op)](l, r)
            except KeyError:
                raise NotConst('binop')
            except Exception as e:
                raise NotConst(f'binop failed: {e}')
        if isinstance(node, ast.UnaryOp):
            v = ev(node.operand)
            if isinstance(node.op, ast.USub):
                return -v
            if isinstance(node.op, ast.UAdd):
                return +v
            if isinstance(node.op, ast.Not):
                return not v
            raise NotConst('unaryop')
        if isinstance(node, ast.BoolOp):
            is_and = isinstance(node.op, ast.And)
            r = is_and
            for vn in node.values:       # short-circuit, like Python
                r = ev(vn)
                if bool(r) != is_and:
                    break
            return r
        if isinstance(node, ast.Compare):
            l = ev(node.left)
            for op, c in zip(node.ops, node.comparators):
                r = ev(c)
                try:
                    ok = _CMPOPS[type(op)](l, r)
                except Exception as e:
                    raise NotConst(f'compare failed: {e}')
                if not ok:
                    return False
                l = r
            return True
        if isinstance(node, ast.IfExp):
            return ev(node.body) if ev(node.test) else ev(node.orelse)
        if isinstance(node, ast.Subscript):
            base = ev(node.value)
            if isinstance(node.slice, ast.Slice):
                lo = ev(node.slice.lower) if node.slice.lower else None
                hi = ev(node.slice.upper) if node.slice.upper else None
                stp = ev(node.slice.step) if node.slice.step else None
                return base[lo:hi:stp]
            try:
                return base[ev(node.slice)]
            except NotConst:
                raise
            except Exception as e:
                raise NotConst(f'subscript failed: {e}')
        if isinstance(node, ast.JoinedStr):
            parts = []
            for v in node.values:
                if isinstance(v, ast.Constant):
                    parts.append(str(v.value))
                else:
                    val = ev(v.value)
                    if v.conversion == 114:
                        parts.append(repr(val))
                    else:
                        parts.append(self._str(val))
            return ''.join(parts)
        if isinstance(node, ast.Call):
            return self._call(node, mod, cls, env)
        raise NotConst(type(node).__name__)

    # -------------------------------------------------------------- statement interpreter (pure table builders)
    _FRESH_NODES = (ast.Dict, ast.List, ast.Set, ast.ListComp, ast.SetComp, ast.DictComp, ast.GeneratorExp)
    _MUTATORS = {'append', 'extend', 'add', 'update', 'setdefault', 'insert', 'discard', 'sort', 'reverse'}
    STEP_LIMIT = 200000

    def _run_function(self, fi, args, kwargs, fresh=()):
        """Interpret a side-effect-free kernpy function on concrete arguments: assignments to locals, loops, tests, in-place
        changes of containers created in this activation, return.  Anything else is NotConst.  No repository code runs."""
        import copy as _copy
        if kwargs is None:
            raise NotConst('** call')
        a_ = fi.node.args
        if a_.vararg or a_.kwarg:
            raise NotConst('variadic function')
        if any(isinstance(n, (ast.Yield, ast.YieldFrom, ast.Await, ast.Global, ast.Nonlocal)) for n in ast.walk(fi.node)):
            raise NotConst('generator / global state')
        pos = [x.arg for x in a_.posonlyargs + a_.args]
        if len(args) > len(pos):
            raise NotConst('arity')
        env = {}
        dflt = dict(zip(pos[len(pos) - len(a_.defaults):], a_.defaults)) if a_.defaults else {}
        for x, d in zip(a_.kwonlyargs, a_.kw_defaults):
            if d is not None:
                dflt[x.arg] = d
        names = pos + [x.arg for x in a_.kwonlyargs]
        for n_, v in zip(pos, args):
            env[n_] = v
        for k, v in kwargs.items():
            if k not in names or k in env:
                raise NotConst('keyword binding')
            env[k] = v
        for n_ in names:
            if n_ not in env:
                if n_ not in dflt:
                    raise NotConst('missing argument')
                env[n_] = self.eval(dflt[n_], fi.module, fi.cls, {})
        key = ('run', fi.qualname, repr(sorted((k, repr(v)[:200]) for k, v in env.items())))
        st = {'steps': 0, 'fresh': {id(x) for x in fresh}, 'keep': list(fresh)}

        def run():
            sig, val = self._run_block(fi.node.body, fi, env, st)
            if sig in ('break', 'continue'):
                raise NotConst('loop control outside a loop')
            try:
                return _copy.deepcopy(val) if sig == 'return' else None
            except Exception:
                return val
        return self._guard(key, run)

    def _construct(self, ci, args, kwargs):
        """Value object: the class's __init__ (first along the MRO, defined in kernpy) interpreted on a new Instance."""
        if kwargs is None:
            raise NotConst('** call')
        init = self.prog.find_method(ci, '__init__')
        inst = Instance(ci)
        if init is None:
            if args or kwargs:
                raise NotConst('constructor arguments without __init__')
            return inst
        if init.module.generated or init.decorators:
            raise NotConst('constructor not interpreted')
        self._run_function(init, [inst] + list(args), kwargs, fresh=[inst])
        return inst

    def _fresh(self, st, node, val):
        if isinstance(node, self._FRESH_NODES) or (isinstance(node, ast.Call) and isinstance(node.func, ast.Name)
                                                   and node.func.id in ('dict', 'list', 'set', 'sorted', 'OrderedDict')):
            st['fresh'].add(id(val))
            st['keep'].append(val)

    def _run_block(self, body, fi, env, st):
        mod, cls = fi.module, fi.cls
        ev = lambda n: self.eval(n, mod, cls, env)
        for s_ in body:
            st['steps'] += 1
            if st['steps'] > self.STEP_LIMIT:
                raise NotConst('step limit')
            if isinstance(s_, ast.Pass):
                continue
            if isinstance(s_, ast.Expr):
                v = s_.value
                if isinstance(v, ast.Constant):
                    continue
                if isinstance(v, ast.Call) and isinstance(v.func, ast.Attribute) and v.func.attr in self._MUTATORS and not v.keywords:
                    obj = ev(v.func.value)
                    if id(obj) not in st['fresh']:
                        raise NotConst(f'in-place change of an object the function did not create: {ast.unparse(v)[:60]}')
                    if not isinstance(obj, (list, dict, set)) or not hasattr(obj, v.func.attr):
                        raise NotConst('mutator on ' + type(obj).__name__)
                    try:
                        getattr(obj, v.func.attr)(*[ev(a) for a in v.args])
                    except NotConst:
                        raise
                    except Exception as e:
                        raise NotConst(f'{v.func.attr} failed: {e}')
                    continue
                if isinstance(v, ast.Call) and isinstance(v.func, ast.Attribute) and v.func.attr == '__init__' and isinstance(v.func.value, ast.Call) \
                        and isinstance(v.func.value.func, ast.Name) and v.func.value.func.id == 'super' and not v.func.value.args \
                        and fi.cls is not None and fi.params and isinstance(env.get(fi.params[0]), Instance) and id(env[fi.params[0]]) in st['fresh']:
                    # super().__init__(...) while a value object is being built: the next constructor along the MRO of the object's class
                    inst = env[fi.params[0]]
                    mro = self.prog.mro(inst.ci)
                    nxt = None
                    if fi.cls in mro:
                        for c_ in mro[mro.index(fi.cls) + 1:]:
                            if '__init__' in c_.methods:
                                nxt = c_.methods['__init__']
                                break
                    args_ = [ev(a) for a in v.args]
                    if not all(k.arg for k in v.keywords):
                        raise NotConst('** call')
                    kw_ = {k.arg: ev(k.value) for k in v.keywords}
                    if nxt is None:
                        if args_ or kw_:
                            raise NotConst('super().__init__ with arguments reaches object')
                        continue
                    if nxt.module.generated:
                        raise NotConst('constructor not interpreted')
                    self._run_function(nxt, [inst] + args_, kw_, fresh=[inst])
                    continue
                raise NotConst('expression statement ' + ast.unparse(v)[:60])
            if isinstance(s_, (ast.Assign, ast.AnnAssign)):
                if isinstance(s_, ast.AnnAssign) and s_.value is None:
                    continue
                val = ev(s_.value)
                self._fresh(st, s_.value, val)
                for t in (s_.targets if isinstance(s_, ast.Assign) else [s_.target]):
                    self._store(t, val, fi, env, st)
                continue
            if isinstance(s_, ast.AugAssign):
                if type(s_.op) not in _BINOPS:
                    raise NotConst('augmented operator')
                cur = ev(s_.target) if isinstance(s_.target, (ast.Name, ast.Subscript)) else None
                if cur is None and not isinstance(s_.target, (ast.Name, ast.Subscript)):
                    raise NotConst('augmented target')
                try:
                    new = _BINOPS[type(s_.op)](cur, ev(s_.value))      # a new object: `x += [..]` on a shared list is not aliased
                except NotConst:
                    raise
                except Exception as e:
                    raise NotConst(f'augmented assignment failed: {e}')
                if isinstance(new, (list, dict, set)):
                    st['fresh'].add(id(new)); st['keep'].append(new)
                self._store(s_.target, new, fi, env, st)
                continue
            if isinstance(s_, ast.If):
                sig, val = self._run_block(s_.body if ev(s_.test) else s_.orelse, fi, env, st)
                if sig:
                    return sig, val
                continue
            if isinstance(s_, ast.For):
                broke = False
                for item in self._iter(ev(s_.iter)):
                    self._store(s_.target, item, fi, env, st)
                    sig, val = self._run_block(s_.body, fi, env, st)
                    if sig == 'return':
                        return sig, val
                    if sig == 'break':
                        broke = True
                        break
                if not broke and s_.orelse:
                    sig, val = self._run_block(s_.orelse, fi, env, st)
                    if sig:
                        return sig, val
                continue
            if isinstance(s_, ast.While):
                broke = False
                while ev(s_.test):
                    st['steps'] += 1
                    if st['steps'] > self.STEP_LIMIT:
                        raise NotConst('step limit')
                    sig, val = self._run_block(s_.body, fi, env, st)
                    if sig == 'return':
                        return sig, val
                    if sig == 'break':
                        broke = True
                        break
                if not broke and s_.orelse:
                    sig, val = self._run_block(s_.orelse, fi, env, st)
                    if sig:
                        return sig, val
                continue
            if isinstance(s_, ast.Return):
                return 'return', (ev(s_.value) if s_.value is not None else None)
            if isinstance(s_, ast.Break):
                return 'break', None
            if isinstance(s_, ast.Continue):
                return 'continue', None
            if isinstance(s_, ast.Assert):
                if not ev(s_.test):
                    raise NotConst('assertion of the interpreted function fails')
                continue
            raise NotConst('statement ' + type(s_).__name__)
        return None, None

    def _store(self, t, val, fi, env, st):
        if isinstance(t, ast.Name):
            env[t.id] = val
        elif isinstance(t, (ast.Tuple, ast.List)):
            vals = list(val)
            if len(vals) != len(t.elts) or any(isinstance(e, ast.Starred) for e in t.elts):
                raise NotConst('unpack')
            for e, v in zip(t.elts, vals):
                self._store(e, v, fi, env, st)
        elif isinstance(t, ast.Subscript) and not isinstance(t.slice, ast.Slice):
            obj = self.eval(t.value, fi.module, fi.cls, env)
            if id(obj) not in st['fresh'] or not isinstance(obj, (list, dict)):
                raise NotConst('item store into an object the function did not create')
            try:
                obj[self.eval(t.slice, fi.module, fi.cls, env)] = val
            except NotConst:
                raise
            except Exception as e:
                raise NotConst(f'item store failed: {e}')
        elif isinstance(t, ast.Attribute):
            obj = self.eval(t.value, fi.module, fi.cls, env)
            if not isinstance(obj, Instance) or id(obj) not in st['fresh']:
                raise NotConst('attribute store into an object the function did not create')
            obj.attrs[t.attr] = val
        else:
            raise NotConst('store target')

    def _str(self, v):
        if isinstance(v, EnumMember):
            return v.name
        return str(v)

    def _guard(self, key, thunk):
        if key in self._busy:
            raise NotConst(f'cyclic constant {key}')
        self._busy.add(key)
        try:
            return thunk()
        finally:
            self._busy.discard(key)

    def _iter(self, v):
        if isinstance(v, ClassRef):
            if self.prog.is_enum(v.ci):
                return self.enum_canonical(v.ci)
            raise NotConst('iteration over class')
        if isinstance(v, (list, tuple, set, frozenset, dict, str, range)):
            return list(v)
        raise NotConst(f'iteration over {type(v).__name__}')

    def _assign_target(self, t, val, env):
        if isinstance(t, ast.Name):
            env[t.id] = val
        elif isinstance(t, (ast.Tuple, ast.List)):
            vals = list(val)
            if len(vals) != len(t.elts):
                raise NotConst('unpack')
            for e, v in zip(t.elts, vals):
                self._assign_target(e, v, env)
        else:
            raise NotConst('target')

    def _comp(self, node, gi, mod, cls, env, out):
        if gi == len(node.generators):
            if isinstance(node, ast.DictComp):
                out.append((self.eval(node.key, mod, cls, env), self.eval(node.value, mod, cls, env)))
            else:
                out.append(self.eval(node.elt, mod, cls, env))
            return
        g = node.generators[gi]
        for item in self._iter(self.eval(g.iter, mod, cls, env)):
            e2 = dict(env)
            self._assign_target(g.target, item, e2)
            if all(self.eval(c, mod, cls, e2) for c in g.ifs):
                self._comp(node, gi + 1, mod, cls, e2, out)

    def _call(self, node: ast.Call, mod, cls, env):
        ev = lambda n: self.eval(n, mod, cls, env)
        f = node.func
        if node.keywords and not (isinstance(f, ast.Name) and f.id in ('sorted', 'dict')) \
                and not (isinstance(f, ast.Name) and f.id not in env and getattr(self.prog.resolve(mod, f.id), 'kind', None) in ('def', 'class')) \
                and not isinstance(f, ast.Attribute):
            raise NotConst('keyword call')
        if isinstance(f, ast.Name) and f.id == 'isinstance' and f.id not in env and len(node.args) == 2 and not node.keywords:
            types = {'int': int, 'str': str, 'bool': bool, 'float': float, 'list': list, 'tuple': tuple, 'set': set, 'dict': dict,
                     'frozenset': frozenset, 'bytes': bytes}
            tn = node.args[1]
            elts = tn.elts if isinstance(tn, ast.Tuple) else [tn]
            if all(isinstance(e, ast.Name) and e.id in types and self.prog.resolve(mod, e.id) is None for e in elts):
                return isinstance(ev(node.args[0]), tuple(types[e.id] for e in elts))
            raise NotConst('isinstance with a non-builtin type')
        if isinstance(f, ast.Name) and f.id not in env:
            b = self.prog.resolve(mod, f.id)
            if f.id in _SAFE_BUILTINS and b is None:
                args = [self._iter(ev(a)) if f.id in ('sorted', 'list', 'set', 'tuple', 'frozenset', 'min', 'max',
                                                        'sum', 'reversed', 'enumerate', 'any', 'all')
                        and not isinstance(ev(a), (int, float)) else ev(a) for a in node.args]
                kw = {}
                for k in node.keywords:
                    if k.arg == 'reverse':
                        kw['reverse'] = ev(k.value)
                    elif f.id == 'dict' and k.arg:
                        kw[k.arg] = ev(k.value)
                    else:
                        raise NotConst('keyword')
                try:
                    return _SAFE_BUILTINS[f.id](*args, **kw)
                except Exception as e:
                    raise NotConst(f'{f.id} failed: {e}')
            if b is not None and b.kind == 'def' and not b.value.decorators:
                # a kernpy function that is local bindings + ONE returned expression: interpreted, never run
                fi = b.value
                body = list(fi.node.body)
                if body and isinstance(body[0], ast.Expr) and isinstance(body[0].value, ast.Constant) and isinstance(body[0].value.value, str):
                    body = body[1:]
                a_ = fi.node.args
                if body and not node.keywords and isinstance(body[-1], ast.Return) and body[-1].value is not None and not (a_.vararg or a_.kwarg or a_.kwonlyargs) \
                        and len(node.args) == len(a_.posonlyargs + a_.args) \
                        and all(isinstance(st, ast.Assign) and len(st.targets) == 1 and isinstance(st.targets[0], ast.Name) for st in body[:-1]):
                    e2 = dict(zip([x.arg for x in a_.posonlyargs + a_.args], [ev(x) for x in node.args]))
                    key = ('call', fi.qualname, repr(sorted((k, repr(v)[:200]) for k, v in e2.items())))
                    def run():
                        for st in body[:-1]:
                            e2[st.targets[0].id] = self.eval(st.value, fi.module, fi.cls, e2)
                        return self.eval(body[-1].value, fi.module, fi.cls, e2)
                    return self._guard(key, run)
                # any other pure table-building function (loops, local containers filled in place): interpreted statement by
                # statement by the checker (bounded; only objects created in the activation may be changed)
                return self._run_function(fi, [ev(x) for x in node.args], {k.arg: ev(k.value) for k in node.keywords if k.arg}
                                          if all(k.arg for k in node.keywords) else None)
            if b is not None and b.kind == 'class' and not self.prog.is_enum(b.value) and not b.value.module.generated:
                return self._construct(b.value, [ev(x) for x in node.args],
                                       {k.arg: ev(k.value) for k in node.keywords} if all(k.arg for k in node.keywords) else None)
            if b is not None and b.kind == 'external' and b.value in ('copy.deepcopy', 'copy.copy'):
                return ev(node.args[0])
            if b is not None and b.kind == 'external' and b.value in ('collections.OrderedDict',):
                return OrderedDict(ev(node.args[0])) if node.args else OrderedDict()
            raise NotConst(f'call {f.id}')
        if isinstance(f, ast.Name) and f.id in env and isinstance(env[f.id], ClassRef) and env[f.id].ci is not None \
                and not self.prog.is_enum(env[f.id].ci):
            return self._construct(env[f.id].ci, [ev(a) for a in node.args],
                                   {k.arg: ev(k.value) for k in node.keywords} if all(k.arg for k in node.keywords) else None)
        if isinstance(f, ast.Name) and f.id in env and callable(env[f.id]) and not node.keywords:
            try:
                return env[f.id](*[ev(a) for a in node.args])
            except NotConst:
                raise
            except Exception as e:
                raise NotConst(f'call of {f.id} failed: {e}')
        if isinstance(f, ast.Attribute):
            # copy.deepcopy(x)
            r = self.prog.resolve_expr(mod, f, cls) if isinstance(f.value, ast.Name) and f.value.id not in env else None
            if r and r[0] == 'external' and r[1] in ('copy.deepcopy', 'copy.copy'):
                return ev(node.args[0])
            # str.maketrans(...) on constants: the translation table itself
            if isinstance(f.value, ast.Name) and f.value.id == 'str' and f.value.id not in env and f.attr == 'maketrans' \
                    and self.prog.resolve(mod, 'str') is None and 1 <= len(node.args) <= 3:
                try:
                    return str.maketrans(*[ev(a) for a in node.args])
                except NotConst:
                    raise
                except Exception as e:
                    raise NotConst(f'maketrans failed: {e}')
            base = ev(f.value)
            if isinstance(base, ClassRef) and base.ci is not None and not self.prog.is_enum(base.ci):
                m_ = self.prog.find_method(base.ci, f.attr)
                if m_ is not None and not m_.module.generated and m_.kind in ('classmethod', 'staticmethod') and all(k.arg for k in node.keywords):
                    args_ = [ev(a) for a in node.args]
                    if m_.kind == 'classmethod':
                        args_ = [base] + args_
                    return self._run_function(m_, args_, {k.arg: ev(k.value) for k in node.keywords})
            if isinstance(base, Instance):
                # a method of a value object: interpreted with the object as receiver (it may fill only what it creates itself)
                m_ = self.prog.find_method(base.ci, f.attr)
                if m_ is None or m_.module.generated or m_.decorators:
                    raise NotConst(f'method {f.attr} of a {base.ci.name} object')
                if not all(k.arg for k in node.keywords):
                    raise NotConst('** call')
                return self._run_function(m_, [base] + [ev(a) for a in node.args], {k.arg: ev(k.value) for k in node.keywords})
            if node.keywords:
                raise NotConst('keyword call')
            for t, names in _SAFE_METHODS.items():
                if isinstance(base, t) and f.attr in names:
                    args = [ev(a) for a in node.args]
                    try:
                        res = getattr(base, f.attr)(*args)
                    except Exception as e:
                        raise NotConst(f'{f.attr} failed: {e}')
                    if f.attr in ('keys', 'values', 'items'):
                        return list(res)
                    return res
            if isinstance(base, ClassRef) and f.attr in ('union', 'intersection') and base.ci is None:
                raise NotConst('set.union')
            raise NotConst(f'method {f.attr} on {type(base).__name__}')
        raise NotConst('call')


_BINOPS = {
    ast.Add: lambda a, b: a + b, ast.Sub: lambda a, b: a - b, ast.Mult: lambda a, b: a * b,
    ast.FloorDiv: lambda a, b: a // b, ast.Mod: lambda a, b: a % b, ast.BitOr: lambda a, b: a | b,
    ast.BitAnd: lambda a, b: a & b, ast.Div: lambda a, b: a / b, ast.Pow: lambda a, b: a ** b,
}
_CMPOPS = {
    ast.Eq: lambda a, b: a == b, ast.NotEq: lambda a, b: a != b, ast.Lt: lambda a, b: a < b,
    ast.LtE: lambda a, b: a <= b, ast.Gt: lambda a, b: a > b, ast.GtE: lambda a, b: a >= b,
    ast.In: lambda a, b: a in b, ast.NotIn: lambda a, b: a not in b, ast.Is: lambda a, b: a is b,
    ast.IsNot: lambda a, b: a is not b,
}
