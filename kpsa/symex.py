"""Symbolic execution along enumerated paths for small functions: locals are replaced by the expressions
they hold (last assignment on the path), so rules are phrased on origins and not on local names.
No feasibility query, no solver: every syntactic path is kept."""
from __future__ import annotations

import ast
import copy
from typing import Dict, List, Optional

from .errors import AnalysisError
from .astutil import clone, beta_reduce
from .paths import enumerate_paths, Path, Step
from . import guards as G


class Event:
    __slots__ = ('kind', 'node', 'expr', 'target', 'step')

    def __init__(self, kind, node, expr=None, target=None, step=None):
        self.kind = kind      # assign | store | expr | return | raise | iter | skip | cond | with | except | def | del | other
        self.node = node      # original AST node
        self.expr = expr      # substituted expression (value / test / iter)
        self.target = target  # substituted target (store) or list of names (assign)
        self.step = step

    def __repr__(self):
        e = ast.unparse(self.expr) if isinstance(self.expr, ast.AST) else self.expr
        t = ast.unparse(self.target) if isinstance(self.target, ast.AST) else self.target
        return f'<{self.kind} {t or ""} {e}>'


class SymPath:
    def __init__(self, path: Path):
        self.path = path
        self.end = path.end
        self.events: List[Event] = []
        self.conds = []           # list of (substituted test, truth)
        self.value = None         # substituted return value / raised exception
        self.env: Dict[str, ast.AST] = {}

    def condition(self):
        fs = []
        for node, truth in self.conds:
            g = G._formula(node)
            fs.append(g if truth else ('not', g))
        return G.conj(fs)

    def calls(self):
        """All Call nodes evaluated along the path, in order, each counted once (from the original
        statements, with substituted copies available through events)."""
        from .paths import calls_in, step_exprs
        out = []
        for s in self.path.steps:
            for e in step_exprs(s):
                out.extend(reversed(calls_in(e)))
        return out

    def __repr__(self):
        return f'<SymPath {self.end} if {G.show(self.condition())} -> {ast.unparse(self.value) if self.value is not None else None}>'


class _Opaque:
    def __init__(self):
        self.n = 0

    def fresh(self, name):
        self.n += 1
        return ast.Name(id=f'{name}#{self.n}', ctx=ast.Load())


def _sub(node, env):
    out = G.substitute(node, env, recursive=False) if env else clone(node)
    # a local bound to a lambda and called: the call is the lambda's body
    if any(isinstance(n, ast.Call) and isinstance(n.func, (ast.Lambda, ast.IfExp)) for n in ast.walk(out)):
        out = beta_reduce(out)
    return out


_PURE_FUNCS_EARLY = None
_MUTATORS = {'append', 'extend', 'insert', 'add', 'update', 'pop', 'remove', 'clear', 'sort', 'reverse', 'setdefault', 'popitem',
             'discard', 'appendleft', 'extendleft', 'popleft', 'put', 'get_nowait', 'put_nowait'}


_PARAM_MUT = {}


def _callee_keeps(n: ast.Call, arg, fi, depth=0) -> bool:
    """The call hands `arg` to a function of the program that resolves from the caller's module and that neither changes the
    corresponding parameter in place nor lets it escape (hands it on, stores it, returns it)."""
    if fi is None or INLINER is None or depth > 3:
        return False
    prog = INLINER.ctx.prog
    target = None
    bound = False
    if isinstance(n.func, ast.Name):
        r = prog.resolve_expr(fi.module, n.func, None)
        if r and r[0] == 'def':
            target = r[1]
    elif isinstance(n.func, ast.Attribute) and isinstance(n.func.value, ast.Name) and n.func.value.id in ('self', 'cls') and fi.cls is not None:
        target = prog.find_method(fi.cls, n.func.attr)
        bound = target is not None and target.kind in ('method', 'classmethod')
    if target is None or isinstance(target.node, ast.Lambda):
        return False
    a = target.node.args
    if a.vararg or a.kwarg:
        return False
    params = [x.arg for x in a.posonlyargs + a.args][1 if bound else 0:]
    pname = None
    for i, x in enumerate(n.args):
        if x is arg and i < len(params):
            pname = params[i]
    for k in n.keywords:
        if k.value is arg:
            pname = k.arg
    if pname is None:
        return False
    key = (id(target.node), pname)
    if key in _PARAM_MUT and _PARAM_MUT[key][0] is target.node:
        return _PARAM_MUT[key][1]
    _PARAM_MUT[key] = (target.node, False)      # recursion: assume the worst
    keeps = True
    for st in target.node.body:
        for m in ast.walk(st):
            if isinstance(m, ast.Name) and m.id == pname and isinstance(m.ctx, ast.Load):
                keeps = keeps and _benign_use(m, st, target, depth)
            elif isinstance(m, ast.Name) and m.id == pname:
                keeps = False       # re-bound: keep it simple
    _PARAM_MUT[key] = (target.node, keeps)
    return keeps


def _benign_use(name, stmt, target, depth) -> bool:
    """A read of a parameter that cannot change the object or make it reachable from elsewhere: iteration, membership test,
    len / sorted / any / all / ..., an element read, a pure method, an argument of a callee that keeps it."""
    parent = None
    for n in ast.walk(stmt):
        for c in ast.iter_child_nodes(n):
            if c is name:
                parent = n
    if parent is None:
        return False
    if isinstance(parent, (ast.For, ast.comprehension)) and parent.iter is name:
        return True
    if isinstance(parent, ast.Compare):
        return True
    if isinstance(parent, ast.Subscript) and parent.value is name and isinstance(parent.ctx, ast.Load):
        return True
    if isinstance(parent, (ast.BoolOp, ast.UnaryOp, ast.If, ast.While, ast.IfExp)) and (not isinstance(parent, ast.IfExp) or parent.test is name):
        return True
    if isinstance(parent, ast.Attribute) and parent.value is name and parent.attr not in _MUTATORS:
        return parent.attr in ('count', 'index', 'get', 'keys', 'values', 'items', 'copy', 'startswith', 'endswith', 'join',
                               'split', 'strip', 'lower', 'upper', 'union', 'intersection', 'difference', 'issubset', 'issuperset', 'isdisjoint')
    if isinstance(parent, ast.Call) and isinstance(parent.func, ast.Name) and parent.func.id in (
            'len', 'sorted', 'any', 'all', 'sum', 'min', 'max', 'list', 'tuple', 'set', 'frozenset', 'dict', 'enumerate', 'zip', 'map',
            'filter', 'reversed', 'iter', 'str', 'repr', 'bool', 'isinstance', 'print') and name in parent.args:
        return True
    if isinstance(parent, ast.Call) and (name in parent.args or any(k.value is name for k in parent.keywords)):
        return _callee_keeps(parent, name, target, depth + 1)
    if isinstance(parent, ast.Starred):
        return True
    return False


def mutated_names(body, fi=None) -> set:
    """Local names whose object is changed in place somewhere in the statements: receiver of a mutating method, base of a
    subscript / attribute store, target of an augmented assignment."""
    out = set()
    for st in body:
        for n in ast.walk(st):
            if isinstance(n, ast.Call) and isinstance(n.func, ast.Attribute) and n.func.attr in _MUTATORS and isinstance(n.func.value, ast.Name):
                out.add(n.func.value.id)
            elif isinstance(n, (ast.Subscript, ast.Attribute)) and isinstance(n.ctx, (ast.Store, ast.Del)) and isinstance(n.value, ast.Name):
                out.add(n.value.id)
            if isinstance(n, ast.Call) and (
                    (isinstance(n.func, ast.Attribute) and isinstance(n.func.value, ast.Name) and n.func.value.id in ('self', 'cls')
                     and n.func.attr not in _PURE_METHODS)
                    or (isinstance(n.func, ast.Name) and n.func.id not in _PURE_FUNCS and not n.func.id[:1].isupper())):
                # a container handed to a method of the own object / a plain function may be filled by it (append_row(..., row=row))
                for a_ in list(n.args) + [k.value for k in n.keywords]:
                    if isinstance(a_, ast.Name) and not _callee_keeps(n, a_, fi):
                        out.add(a_.id)
    # an element handed out by iteration / subscription is part of the container: changing it changes the container
    changed = True
    while changed:
        changed = False
        for st in body:
            for n in ast.walk(st):
                src_names, tgt = [], None
                if isinstance(n, (ast.For, ast.comprehension)):
                    tgt, it = n.target, n.iter
                    base = it.func.value if isinstance(it, ast.Call) and isinstance(it.func, ast.Attribute) and it.func.attr in ('items', 'values') else it
                    if isinstance(base, ast.Name):
                        src_names = [base.id]
                elif isinstance(n, ast.Assign) and isinstance(n.value, ast.Subscript) and isinstance(n.value.value, ast.Name) and len(n.targets) == 1:
                    tgt, src_names = n.targets[0], [n.value.value.id]
                if tgt is None or not src_names:
                    continue
                if any(isinstance(x, ast.Name) and x.id in out for x in ast.walk(tgt)):
                    for s_ in src_names:
                        if s_ not in out:
                            out.add(s_)
                            changed = True
    return out


def _fresh_container(v) -> bool:
    if isinstance(v, (ast.List, ast.Dict, ast.Set, ast.ListComp, ast.DictComp, ast.SetComp)):
        return True
    return isinstance(v, ast.Call) and isinstance(v.func, ast.Name) and v.func.id in ('list', 'dict', 'set', 'deque', 'OrderedDict', 'defaultdict')


_MUTATED = set()


def _bind(target, value, env, op: _Opaque, events, node, step):
    if isinstance(target, ast.Name):
        if target.id in _MUTATED and _fresh_container(value):
            # a container that is changed in place later: the name stands for the object, not for its initial contents
            env[target.id] = ast.Name(id=target.id, ctx=ast.Load())
        else:
            env[target.id] = value
        events.append(Event('assign', node, value, [target.id], step))
    elif isinstance(target, (ast.Tuple, ast.List)):
        if isinstance(value, (ast.Tuple, ast.List)) and len(value.elts) == len(target.elts) \
                and not any(isinstance(e, ast.Starred) for e in target.elts):
            for t, v in zip(target.elts, value.elts):
                _bind(t, v, env, op, events, node, step)
        else:
            names = []
            for i, t in enumerate(target.elts):
                if isinstance(t, ast.Name):
                    env[t.id] = ast.Subscript(value=value, slice=ast.Constant(value=i), ctx=ast.Load())
                    names.append(t.id)
                else:
                    _bind(t, op.fresh('elt'), env, op, events, node, step)
            events.append(Event('assign', node, value, names, step))
    elif isinstance(target, ast.Starred):
        _bind(target.value, op.fresh('star'), env, op, events, node, step)
    else:
        events.append(Event('store', node, value, _sub(target, env), step))


def _clobber(target, env, op):
    for s in ast.walk(target):
        if isinstance(s, ast.Name):
            env[s.id] = op.fresh(s.id)


def sym_paths(body, limit=4000, init_env=None, fi=None, inliner=None) -> List[SymPath]:
    inl = None if inliner is False else (inliner if inliner is not None else INLINER)
    global _MUTATED
    mutated_here = mutated_names(body, fi)
    out = []
    for p in enumerate_paths(body, limit):
        _MUTATED = mutated_here          # (re-set per path: the helper inliner runs nested symbolic executions)
        sp = SymPath(p)
        env: Dict[str, ast.AST] = dict(init_env or {})
        op = _Opaque()
        for st in p.steps:
            n = st.node
            if st.kind == 'cond':
                t = _sub(n, env)
                sp.conds.append((t, st.truth))
                sp.events.append(Event('cond', n, t, st.truth, st))
            elif st.kind == 'stmt':
                if isinstance(n, ast.Assign):
                    v = _sub(n.value, env)
                    for t in n.targets:
                        _bind(t, v, env, op, sp.events, n, st)
                elif isinstance(n, ast.AnnAssign):
                    if n.value is not None:
                        _bind(n.target, _sub(n.value, env), env, op, sp.events, n, st)
                elif isinstance(n, ast.AugAssign):
                    v = _sub(n.value, env)
                    if isinstance(n.target, ast.Name):
                        cur = env.get(n.target.id, ast.Name(id=n.target.id, ctx=ast.Load()))
                        nv = ast.BinOp(left=clone(cur), op=n.op, right=v)
                        env[n.target.id] = nv
                        sp.events.append(Event('assign', n, nv, [n.target.id], st))
                    else:
                        sp.events.append(Event('store', n, v, _sub(n.target, env), st))
                elif isinstance(n, ast.Expr):
                    sp.events.append(Event('expr', n, _sub(n.value, env), None, st))
                elif isinstance(n, ast.Return):
                    sp.value = _sub(n.value, env) if n.value is not None else ast.Constant(value=None)
                    sp.events.append(Event('return', n, sp.value, None, st))
                elif isinstance(n, ast.Raise):
                    sp.value = _sub(n.exc, env) if n.exc is not None else None
                    sp.events.append(Event('raise', n, sp.value, None, st))
                elif isinstance(n, (ast.FunctionDef, ast.AsyncFunctionDef, ast.ClassDef)):
                    sp.events.append(Event('def', n, None, [n.name], st))
                elif isinstance(n, ast.Delete):
                    sp.events.append(Event('del', n, None, [_sub(t, env) for t in n.targets], st))
                elif isinstance(n, (ast.Pass, ast.Import, ast.ImportFrom, ast.Global, ast.Nonlocal)):
                    sp.events.append(Event('other', n, None, None, st))
                elif isinstance(n, ast.Assert):
                    sp.events.append(Event('raise', n, None, None, st))
                else:
                    sp.events.append(Event('other', n, None, None, st))
            elif st.kind in ('loop_enter', 'loop_skip'):
                if isinstance(n, (ast.For, ast.AsyncFor)):
                    it = _sub(n.iter, env)
                    if st.kind == 'loop_enter':
                        # names assigned anywhere in the loop body are loop-carried: make them opaque
                        for b in n.body:
                            for sub in ast.walk(b):
                                if isinstance(sub, ast.Name) and isinstance(sub.ctx, ast.Store):
                                    env[sub.id] = ast.Name(id=f'{sub.id}@iter{n.lineno}', ctx=ast.Load())
                        if isinstance(n.target, ast.Name):
                            env[n.target.id] = ast.Name(id=f'{n.target.id}@{n.lineno}', ctx=ast.Load())
                        else:
                            for s in ast.walk(n.target):
                                if isinstance(s, ast.Name):
                                    env[s.id] = ast.Name(id=f'{s.id}@{n.lineno}', ctx=ast.Load())
                        sp.events.append(Event('iter', n, it, None, st))
                    else:
                        sp.events.append(Event('skip', n, it, None, st))
                else:
                    if st.kind == 'loop_enter':
                        for b in n.body:
                            for sub in ast.walk(b):
                                if isinstance(sub, ast.Name) and isinstance(sub.ctx, ast.Store):
                                    env[sub.id] = ast.Name(id=f'{sub.id}@iter{n.lineno}', ctx=ast.Load())
                    t = _sub(n.test, env)
                    if st.kind == 'loop_enter':
                        sp.conds.append((t, True))
                    sp.events.append(Event('iter' if st.kind == 'loop_enter' else 'skip', n, t, None, st))
            elif st.kind == 'with':
                for it in n.items:
                    ce = _sub(it.context_expr, env)
                    sp.events.append(Event('with', n, ce, None, st))
                    if it.optional_vars is not None:
                        if isinstance(it.optional_vars, ast.Name):
                            env[it.optional_vars.id] = ast.Call(func=ast.Name(id='__enter__', ctx=ast.Load()),
                                                                args=[ce], keywords=[])
                        else:
                            _clobber(it.optional_vars, env, op)
            elif st.kind == 'except':
                if n.name:
                    env[n.name] = ast.Name(id=f'{n.name}@exc', ctx=ast.Load())
                sp.events.append(Event('except', n, None, None, st))
            elif st.kind == 'try_partial':
                # anything assigned in the try body may or may not have happened
                for sub in ast.walk(ast.Module(body=n.body, type_ignores=[])):
                    if isinstance(sub, ast.Name) and isinstance(sub.ctx, ast.Store):
                        env[sub.id] = op.fresh(sub.id)
                sp.events.append(Event('other', n, None, None, st))
        sp.env = env
        if inl is not None and fi is not None:
            sp.conds = [(inl.apply(c, fi), t) for c, t in sp.conds]
            if sp.value is not None:
                sp.value = inl.apply(sp.value, fi)
            for e in sp.events:
                if isinstance(e.expr, ast.AST):
                    e.expr = inl.apply(e.expr, fi)
                if isinstance(e.target, ast.AST):
                    e.target = inl.apply(e.target, fi)
            sp.env = {k: inl.apply(v, fi) for k, v in env.items()}
        if _trivially_infeasible(sp):
            continue
        # tests decided by the expression alone (and taken the only possible way) say nothing about the inputs
        sp.conds = [(n_, t_) for n_, t_ in sp.conds if _decide(n_) is None]
        out.append(sp)
    return out


_PURE_FUNCS = {'len', 'isinstance', 'bool', 'str', 'int', 'float', 'list', 'tuple', 'set', 'frozenset', 'dict', 'sorted', 'any', 'all',
               'min', 'max', 'getattr', 'hasattr', 'type', 'sum', 'abs', 'repr', 'range', 'enumerate', 'zip', 'reversed', 'callable'}
_PURE_METHODS = {'get', 'join', 'startswith', 'endswith', 'count', 'keys', 'values', 'items', 'lower', 'upper', 'strip', 'lstrip',
                 'rstrip', 'replace', 'split', 'isdigit', 'isalpha', 'format', 'copy', 'index', 'find', 'union', 'difference',
                 'intersection', 'issubset', 'issuperset', 'isdisjoint'}
_NEVER_NONE_METHODS = {'join', 'replace', 'strip', 'lstrip', 'rstrip', 'split', 'lower', 'upper', 'format', 'keys', 'values', 'items',
                       'copy', 'union', 'difference', 'intersection', 'count'}


def pure(node) -> bool:
    """No call in the expression can have (or observe) a side effect: builtins and read-only str / dict / set methods only."""
    for n in ast.walk(node):
        if isinstance(n, ast.Call):
            f = n.func
            if isinstance(f, ast.Name) and f.id in _PURE_FUNCS:
                continue
            if isinstance(f, ast.Attribute) and f.attr in _PURE_METHODS:
                continue
            return False
        if isinstance(n, (ast.Await, ast.Yield, ast.YieldFrom, ast.NamedExpr)):
            return False
    return True


def never_none(node) -> bool:
    if isinstance(node, ast.Constant):
        return node.value is not None
    if isinstance(node, (ast.BinOp, ast.JoinedStr, ast.List, ast.Tuple, ast.Dict, ast.Set, ast.ListComp, ast.SetComp, ast.DictComp,
                         ast.GeneratorExp, ast.Lambda, ast.Compare)):
        return True
    if isinstance(node, ast.Call):
        f = node.func
        if isinstance(f, ast.Name) and f.id in _PURE_FUNCS - {'getattr', 'min', 'max'}:
            return True
        if isinstance(f, ast.Attribute) and f.attr in _NEVER_NONE_METHODS:
            return True
    return False


def _decide(node):
    """Truth value of a branch test when it is evident from the expression alone, else None."""
    if isinstance(node, ast.UnaryOp) and isinstance(node.op, ast.Not):
        v = _decide(node.operand)
        return None if v is None else (not v)
    if isinstance(node, ast.Constant):
        return bool(node.value)
    if isinstance(node, (ast.List, ast.Tuple, ast.Set)) and not any(isinstance(e, ast.Starred) for e in node.elts):
        return bool(node.elts)          # a display is true exactly when it has elements
    if isinstance(node, ast.Dict) and all(k is not None for k in node.keys):
        return bool(node.keys)
    if isinstance(node, ast.Compare) and len(node.ops) == 1:
        l, r, op = node.left, node.comparators[0], node.ops[0]
        f_ = G._formula(node)
        if f_[0] == 'const':
            return f_[1]
        if f_[0] == 'not' and f_[1][0] == 'const':
            return not f_[1][1]
        if isinstance(l, ast.Constant) and isinstance(r, ast.Constant):
            a, b = l.value, r.value
            if isinstance(op, ast.Is):
                return a is b
            if isinstance(op, ast.IsNot):
                return a is not b
            if isinstance(op, ast.Eq):
                return a == b
            if isinstance(op, ast.NotEq):
                return a != b
            return None
        if isinstance(op, (ast.Is, ast.IsNot)):
            for x, y in ((l, r), (r, l)):
                if isinstance(y, ast.Constant) and y.value is None and never_none(x):
                    return isinstance(op, ast.IsNot)
    return None


def _trivially_infeasible(sp) -> bool:
    """Decided without a solver: comparisons between literal constants (`None is not None` after substitution), `x is None`
    for an expression that is never None (a concatenation, a literal, a str method), and the SAME side-effect-free test taken
    both ways on one path (after substitution equal texts are equal values)."""
    seen = {}
    for node, truth in sp.conds:
        v = _decide(node)
        if v is not None and v != truth:
            return True
        if pure(node):
            k = ast.dump(node)
            if k in seen and seen[k] != truth:
                return True
            seen.setdefault(k, truth)
    return False


def _assigned_in(loop, name):
    for sub in ast.walk(loop):
        if isinstance(sub, ast.Name) and isinstance(sub.ctx, ast.Store) and sub.id == name:
            return True
    return False


_CACHE = {}


def func_sym_paths(fi, limit=4000) -> List[SymPath]:
    """Feasible paths of a whole function (memoised per analysis run: callers must not modify the SymPath objects)."""
    from .model import docstring_free
    key = (id(fi.node), limit, id(INLINER))
    hit = _CACHE.get(key)
    if hit is not None and hit[0] is fi.node:
        return list(hit[1])
    res = sym_paths(docstring_free(fi.body), limit, fi=fi)
    _CACHE[key] = (fi.node, res)
    return list(res)


def returns(fi, limit=4000):
    """[(condition formula, substituted return expr)] for every returning path (implicit None included)."""
    out = []
    for sp in func_sym_paths(fi, limit):
        if sp.end == 'return':
            out.append((sp.condition(), sp.value, sp))
        elif sp.end == 'fall':
            out.append((sp.condition(), ast.Constant(value=None), sp))
    return out


# ----------------------------------------------------------------------- helper inlining
class Inliner:
    """Private single-expression helpers are transparent to the rules: a call `self._x(a)`, `cls._x(a)`, `Class._x(a)` or
    `_x(a)` whose callee is a private kernpy function with exactly ONE path (no branching; local assignments allowed) ending in
    `return <expr>` is replaced by that expression with the parameters replaced by the arguments.  Extracting such a helper,
    or inlining it again, therefore does not change any canonical expression the rules compare."""

    def __init__(self, ctx):
        self.ctx = ctx
        self._cache = {}
        self.enabled = True
        self.count = 0
        # anchors the rules reason about BY NAME (C11: the deep locator of the category tree): never looked through, whatever
        # their body becomes
        self.opaque = {'_find_subtree'}

    def single_expr(self, target):
        k = id(target.node)
        if k in self._cache:
            return self._cache[k]
        self._cache[k] = None       # recursion guard
        res = None
        try:
            if isinstance(target.node, ast.Lambda) or target.is_abstract:
                return None
            from .model import docstring_free
            body = docstring_free(target.body)
            if any(isinstance(n, (ast.For, ast.While, ast.Try, ast.With, ast.If, ast.Yield, ast.YieldFrom)) for b in body for n in ast.walk(b)):
                return None
            sps = sym_paths(body, limit=8, fi=target, inliner=self)
            if len(sps) == 1 and sps[0].end == 'return' and not sps[0].conds and sps[0].value is not None:
                # no side effects: every event is an assignment or the return
                if all(e.kind in ('assign', 'return') for e in sps[0].events):
                    res = sps[0].value
        except AnalysisError:
            res = None
        self._cache[k] = res
        return res

    def apply(self, node, fi):
        if not self.enabled or fi is None or node is None:
            return node
        from . import facts as F
        inl = self

        class T(ast.NodeTransformer):
            def visit_Lambda(self, n):
                return n

            def visit_Attribute(self, a):
                # NT(x, y).field of a NamedTuple class of the repository -> the argument stored in that field
                self.generic_visit(a)
                v = a.value
                if isinstance(v, ast.Call) and isinstance(v.func, (ast.Name, ast.Attribute)) and not any(isinstance(x, ast.Starred) for x in v.args):
                    try:
                        r = inl.ctx.prog.resolve_expr(fi.module, v.func, getattr(fi, 'cls', None))
                    except Exception:
                        r = None
                    if r and r[0] == 'class' and 'NamedTuple' in [b.rpartition('.')[2] for b in inl.ctx.prog.external_bases(r[1])]:
                        fields = [s_.target.id for s_ in r[1].node.body if isinstance(s_, ast.AnnAssign) and isinstance(s_.target, ast.Name)]
                        if a.attr in fields:
                            i = fields.index(a.attr)
                            kw = {k.arg: k.value for k in v.keywords if k.arg}
                            if a.attr in kw:
                                return kw[a.attr]
                            if i < len(v.args):
                                return v.args[i]
                return a

            def visit_Call(self, c):
                self.generic_visit(c)
                f = c.func
                name = f.attr if isinstance(f, ast.Attribute) else (f.id if isinstance(f, ast.Name) else None)
                if not name or not name.startswith('_') or name.startswith('__') or name in inl.opaque:
                    return c
                try:
                    target, bound = F._static_callee(inl.ctx, c, fi)
                except AnalysisError:
                    return c
                if target is None or target.node is getattr(fi, 'node', None) or target.module.generated:
                    return c
                if target.name == '__init__':
                    return c
                expr = inl.single_expr(target)
                if expr is None:
                    return c
                try:
                    b = F.bind_args(c, target, bound and target.kind in ('method', 'classmethod'))
                except AnalysisError:
                    return c
                if '**' in b or any(isinstance(a, ast.Starred) for a in c.args):
                    return c
                mapping = dict(b)
                for p in target.all_params:
                    if p not in mapping:
                        d = F.param_default(target, p)
                        if d is not None:
                            mapping[p] = d
                if target.kind in ('method', 'classmethod') and target.params and isinstance(f, ast.Attribute):
                    recv = target.params[0]
                    if recv not in mapping:
                        mapping[recv] = f.value
                inl.count += 1
                return G.substitute(expr, mapping, recursive=False)
        return T().visit(clone(node))


INLINER = None      # set by cli.run_property for the duration of one analysis
