"""Small AST utilities (a fast structural clone: copy.deepcopy is slow on AST nodes)."""
import ast

_POS = ('lineno', 'col_offset', 'end_lineno', 'end_col_offset')


def clone(n):
    if isinstance(n, ast.AST):
        c = n.__class__()
        for f in n._fields:
            try:
                v = getattr(n, f)
            except AttributeError:
                continue
            setattr(c, f, clone(v))
        for a in _POS:
            v = getattr(n, a, None)
            if v is not None:
                setattr(c, a, v)
        return c
    if isinstance(n, list):
        return [clone(x) for x in n]
    return n


class _Beta(ast.NodeTransformer):
    """`(lambda a, b: E)(x, y)` -> E[a := x, b := y];  `(f if c else g)(x)` -> `f(x) if c else g(x)`."""

    def visit_Call(self, node):
        self.generic_visit(node)
        f = node.func
        if isinstance(f, ast.IfExp) and not any(isinstance(a, ast.Starred) for a in node.args):
            def call(fn):
                return self.visit(ast.Call(func=fn, args=[clone(a) for a in node.args],
                                           keywords=[ast.keyword(arg=k.arg, value=clone(k.value)) for k in node.keywords]))
            return ast.copy_location(ast.IfExp(test=f.test, body=call(f.body), orelse=call(f.orelse)), node)
        if isinstance(f, ast.Lambda):
            a = f.args
            if a.vararg or a.kwarg or a.kwonlyargs or a.posonlyargs or any(isinstance(x, ast.Starred) for x in node.args):
                return node
            params = [x.arg for x in a.args]
            mapping = {}
            if len(node.args) > len(params):
                return node
            for p_, x in zip(params, node.args):
                mapping[p_] = x
            for k in node.keywords:
                if k.arg is None or k.arg not in params or k.arg in mapping:
                    return node
                mapping[k.arg] = k.value
            defaults = [None] * (len(params) - len(a.defaults)) + list(a.defaults)
            for p_, d in zip(params, defaults):
                if p_ not in mapping:
                    if d is None:
                        return node
                    mapping[p_] = d
            body = clone(f.body)
            # names bound inside the body (comprehension variables, inner lambdas) that also occur in an argument: keep the call
            inner = {n.id for n in ast.walk(body) if isinstance(n, ast.Name) and isinstance(n.ctx, ast.Store)} | \
                    {x.arg for n in ast.walk(body) if isinstance(n, ast.Lambda) for x in n.args.args}
            used = {n.id for v in mapping.values() for n in ast.walk(v) if isinstance(n, ast.Name)}
            if inner & used:
                return node

            class S(ast.NodeTransformer):
                def visit_Name(self, n):
                    if isinstance(n.ctx, ast.Load) and n.id in mapping:
                        return clone(mapping[n.id])
                    return n

                def visit_Lambda(self, n):
                    shadow = {x.arg for x in n.args.args}
                    if shadow & set(mapping):
                        return n
                    return self.generic_visit(n)
            return ast.copy_location(self.visit(S().visit(body)), node)
        return node


def beta_reduce(node):
    return ast.fix_missing_locations(_Beta().visit(node))
