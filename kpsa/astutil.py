"""Small AST utilities (a fast structural clone: copy.deepcopy is slow on AST nodes)."""
import ast

_POS = ('lineno', 'col_offset', 'end_lineno', 'end_col_offset')


def clone(n):
    if isinstance(n, ast.AST):
        c = n.__class__()
        for f in n._fields:
            try:
                v = getattr(n, f)
            except AttributeError:
                continue
            setattr(c, f, clone(v))
        for a in _POS:
            v = getattr(n, a, None)
            if v is not None:
                setattr(c, a, v)
        return c
    if isinstance(n, list):
        return [clone(x) for x in n]
    return n
