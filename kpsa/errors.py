class AnalysisError(Exception):
    """The analysis could not be carried out (anchor vanished, idiom not modelled, internal error).
    Never a verdict about the property: the run ends with exit status 2."""
