"""Guard truth tables: decompose boolean conditions into canonical atoms and compare with a rule's formula."""
from __future__ import annotations

import ast
import copy
import itertools
from typing import Callable, Dict, List, Optional, Tuple

from .errors import AnalysisError
from .astutil import clone
from .model import walk_local


# ----------------------------------------------------------------------- local alias substitution
def single_assignments(fnode) -> Dict[str, ast.AST]:
    """Locals assigned exactly once by a plain `name = expr` (not parameters, not loop targets,
    not augmented): safe to inline when canonicalising a condition."""
    counts: Dict[str, int] = {}
    values: Dict[str, ast.AST] = {}
    params = set()
    if not isinstance(fnode, ast.Lambda):
        a = fnode.args
        for x in a.posonlyargs + a.args + a.kwonlyargs:
            params.add(x.arg)
        if a.vararg:
            params.add(a.vararg.arg)
        if a.kwarg:
            params.add(a.kwarg.arg)
    for n in walk_local(fnode):
        if isinstance(n, ast.Assign):
            for t in n.targets:
                if isinstance(t, ast.Name):
                    counts[t.id] = counts.get(t.id, 0) + 1
                    values[t.id] = n.value
                else:
                    for s in ast.walk(t):
                        if isinstance(s, ast.Name) and isinstance(s.ctx, ast.Store):
                            counts[s.id] = counts.get(s.id, 0) + 2
        elif isinstance(n, ast.AnnAssign) and isinstance(n.target, ast.Name):
            counts[n.target.id] = counts.get(n.target.id, 0) + (1 if n.value is not None else 0)
            if n.value is not None:
                values[n.target.id] = n.value
        elif isinstance(n, (ast.AugAssign,)):
            if isinstance(n.target, ast.Name):
                counts[n.target.id] = counts.get(n.target.id, 0) + 2
        elif isinstance(n, (ast.For, ast.AsyncFor, ast.comprehension)):
            for s in ast.walk(n.target):
                if isinstance(s, ast.Name):
                    counts[s.id] = counts.get(s.id, 0) + 2
        elif isinstance(n, (ast.With, ast.AsyncWith)):
            for it in n.items:
                if it.optional_vars is not None:
                    for s in ast.walk(it.optional_vars):
                        if isinstance(s, ast.Name):
                            counts[s.id] = counts.get(s.id, 0) + 2
        elif isinstance(n, ast.ExceptHandler) and n.name:
            counts[n.name] = counts.get(n.name, 0) + 2
        elif isinstance(n, ast.NamedExpr):
            counts[n.target.id] = counts.get(n.target.id, 0) + 2
    # a container that is filled in place after its binding is not its initial value
    mutated = set()
    for n in walk_local(fnode):
        if isinstance(n, ast.Call) and isinstance(n.func, ast.Attribute) and isinstance(n.func.value, ast.Name) \
                and n.func.attr in ('append', 'extend', 'insert', 'add', 'update', 'pop', 'remove', 'clear', 'sort', 'reverse',
                                    'setdefault', 'discard', 'popitem', 'appendleft', 'extendleft'):
            mutated.add(n.func.value.id)
        elif isinstance(n, ast.Subscript) and isinstance(n.ctx, (ast.Store, ast.Del)) and isinstance(n.value, ast.Name):
            mutated.add(n.value.id)
    return {k: v for k, v in values.items() if counts.get(k) == 1 and k not in params
            and not (k in mutated and isinstance(v, (ast.List, ast.Dict, ast.Set, ast.ListComp, ast.DictComp, ast.SetComp, ast.Call)))}


class _Subst(ast.NodeTransformer):
    def __init__(self, env, depth=0, recursive=True):
        self.env = env
        self.depth = depth
        self.recursive = recursive

    def visit_Name(self, node):
        if isinstance(node.ctx, ast.Load) and node.id in self.env and self.depth < 8:
            v = clone(self.env[node.id])
            if not self.recursive:
                return v
            return _Subst({k: w for k, w in self.env.items() if k != node.id}, self.depth + 1).visit(v)
        return node

    def visit_Lambda(self, node):
        return node

    def _comp(self, node):
        # comprehension variables shadow the environment (the first iterable is evaluated outside)
        bound = set()
        for g in node.generators:
            for t in ast.walk(g.target):
                if isinstance(t, ast.Name):
                    bound.add(t.id)
        if not (bound & set(self.env)):
            return self.generic_visit(node)
        inner = _Subst({k: v for k, v in self.env.items() if k not in bound}, self.depth, self.recursive)
        first = True
        for g in node.generators:
            g.iter = (self if first else inner).visit(g.iter)
            first = False
            g.ifs = [inner.visit(i) for i in g.ifs]
        if isinstance(node, ast.DictComp):
            node.key = inner.visit(node.key)
            node.value = inner.visit(node.value)
        else:
            node.elt = inner.visit(node.elt)
        return node

    visit_ListComp = visit_SetComp = visit_GeneratorExp = visit_DictComp = _comp


def substitute(node, env: Dict[str, ast.AST], recursive=True):
    """recursive=True: env values are raw right-hand sides (single-assignment locals);
    recursive=False: env values are already closed (symbolic execution)."""
    if not env:
        return node
    return _Subst(env, 0, recursive).visit(clone(node))


def norm(node, env=None) -> str:
    """Canonical source of an expression after inlining single-assignment locals."""
    return ast.unparse(substitute(node, env or {}))


# ----------------------------------------------------------------------- formulas
# formula := ('atom', key) | ('not', f) | ('and', [f..]) | ('or', [f..]) | ('const', bool)

def formula(node, env=None, truthy_atoms=True):
    node = substitute(node, env or {})
    return _formula(node)


def _formula(node):
    if isinstance(node, ast.BoolOp):
        fs = [_formula(v) for v in node.values]
        return ('and' if isinstance(node.op, ast.And) else 'or', fs)
    if isinstance(node, ast.UnaryOp) and isinstance(node.op, ast.Not):
        return ('not', _formula(node.operand))
    if isinstance(node, ast.Constant) and isinstance(node.value, bool):
        return ('const', node.value)
    if isinstance(node, ast.Compare):
        parts = []
        left = node.left
        for op, right in zip(node.ops, node.comparators):
            parts.append(_cmp_atom(left, op, right))
            left = right
        return parts[0] if len(parts) == 1 else ('and', parts)
    if isinstance(node, ast.Call) and isinstance(node.func, ast.Name) and node.func.id == 'bool' and len(node.args) == 1:
        return _formula(node.args[0])
    if isinstance(node, ast.Call) and isinstance(node.func, ast.Name) and node.func.id in ('any', 'all') and len(node.args) == 1 \
            and not node.keywords and isinstance(node.args[0], (ast.GeneratorExp, ast.ListComp)) and len(node.args[0].generators) == 1:
        return _quantifier(node.func.id, node.args[0])
    if isinstance(node, ast.Call) and isinstance(node.func, ast.Name) and node.func.id == 'len' and len(node.args) == 1 and not node.keywords:
        return _nonempty(node.args[0])
    if isinstance(node, ast.IfExp):
        c, a, b = _formula(node.test), _formula(node.body), _formula(node.orelse)
        return ('or', [('and', [c, a]), ('and', [('not', c), b])])
    return ('atom', ast.unparse(node))


def canonical(f) -> str:
    """A canonical text of a formula: its atoms in sorted order and its truth table."""
    ats = sorted(atoms_of(f))
    if len(ats) > 10:
        return show(f)
    bits = ''.join('1' if evaluate(f, dict(zip(ats, v))) else '0' for v in itertools.product([False, True], repeat=len(ats)))
    if len(ats) == 1 and bits == '01':
        return ats[0]
    if len(ats) == 1 and bits == '10':
        return f'not {ats[0]}'
    return f'TT[{" | ".join(ats)} : {bits}]'


def _quantifier(kind, gen):
    """any(P for v in it [if C]) is ONE atom whose key carries the canonical form of (C and P); all(P for ... if C) is
    `not any(C and not P ...)`.  The bound variable is renamed positionally."""
    g = gen.generators[0]
    ren = {}
    for i, t in enumerate(n for n in ast.walk(g.target) if isinstance(n, ast.Name)):
        ren[t.id] = f'_v{i}'

    class R(ast.NodeTransformer):
        def visit_Name(self, n):
            if n.id in ren:
                return ast.copy_location(ast.Name(id=ren[n.id], ctx=n.ctx), n)
            return n
    elt = R().visit(clone(gen.elt))
    ifs = [R().visit(clone(i)) for i in g.ifs]
    p = _formula(elt)
    if kind == 'all':
        p = ('not', p)
    body = conj([_formula(i) for i in ifs] + [p])
    a = ('atom', f'any({canonical(body)} for {ast.unparse(R().visit(clone(g.target)))} in {ast.unparse(g.iter)})')
    return ('not', a) if kind == 'all' else a


def _nonempty(x):
    if isinstance(x, ast.Constant) and isinstance(x.value, (str, bytes, tuple)):
        return ('const', len(x.value) > 0)
    if isinstance(x, (ast.List, ast.Tuple, ast.Set)) and not any(isinstance(e, ast.Starred) for e in x.elts):
        return ('const', len(x.elts) > 0)
    return ('atom', f'nonempty({ast.unparse(x)})')


def _is_len(n):
    return isinstance(n, ast.Call) and isinstance(n.func, ast.Name) and n.func.id == 'len' and len(n.args) == 1 and not n.keywords


def _is_int(n, v):
    return isinstance(n, ast.Constant) and type(n.value) is int and n.value == v


def _has_arith(n):
    return isinstance(n, ast.BinOp) and isinstance(n.op, (ast.Add, ast.Sub)) or (isinstance(n, ast.UnaryOp) and isinstance(n.op, ast.USub)
                                                                              and not isinstance(n.operand, ast.Constant))


def _cmp_atom(l, op, r):
    # integer arithmetic around ONE term: `x - 4 < 0`, `0 > x - 4`, `x + 1 <= 5` are `x < 4`, `x < 4`, `x <= 4`
    if isinstance(op, (ast.Lt, ast.Gt, ast.LtE, ast.GtE, ast.Eq, ast.NotEq)) and (_has_arith(l) or _has_arith(r)):
        try:
            from .affine import affine, NotAffine
            try:
                d = affine(l) - affine(r)
            except NotAffine:
                d = None
            if d is not None and len(d.terms) == 1 and isinstance(d.const, int):
                (t, k), = d.terms.items()
                if k in (1, -1) and '@' not in t and '#' not in t and not t.startswith(('div(', 'mod(')):
                    tn = ast.parse(t, mode='eval').body
                    l, r = (tn, ast.Constant(value=-d.const)) if k == 1 else (ast.Constant(value=d.const), tn)
        except (SyntaxError, ImportError):
            pass
    # len(x) compared with 0 / 1: one atom `nonempty(x)` (a length is never negative)
    if _is_len(r) and not _is_len(l):
        flip = {ast.Lt: ast.Gt, ast.Gt: ast.Lt, ast.LtE: ast.GtE, ast.GtE: ast.LtE}
        l, r, op = r, l, flip.get(type(op), type(op))()
    if _is_len(l):
        a = _nonempty(l.args[0])
        t = type(op)
        if (t in (ast.Gt, ast.NotEq) and _is_int(r, 0)) or (t is ast.GtE and _is_int(r, 1)):
            return a
        if (t in (ast.Eq, ast.LtE) and _is_int(r, 0)) or (t is ast.Lt and _is_int(r, 1)):
            return ('not', a)
    # membership in a literal collection of constants: a disjunction of equalities
    if isinstance(op, (ast.In, ast.NotIn)) and isinstance(r, (ast.Tuple, ast.List, ast.Set)) and 0 < len(r.elts) <= 8 \
            and all(isinstance(e, ast.Constant) for e in r.elts):
        d = ('or', [_cmp_atom(l, ast.Eq(), e) for e in sorted(r.elts, key=lambda e: repr(e.value))])
        return ('not', d) if isinstance(op, ast.NotIn) else d
    ls, rs = ast.unparse(l), ast.unparse(r)
    neg = False
    if isinstance(op, ast.IsNot):
        op, neg = ast.Is(), True
    elif isinstance(op, ast.NotEq):
        op, neg = ast.Eq(), True
    elif isinstance(op, ast.NotIn):
        op, neg = ast.In(), True
    elif isinstance(op, ast.Gt):        # a > b  ==  b < a
        ls, rs, op = rs, ls, ast.Lt()
    elif isinstance(op, ast.GtE):       # a >= b ==  not (a < b)
        op, neg = ast.Lt(), True
    elif isinstance(op, ast.LtE):       # a <= b ==  not (b < a)
        ls, rs, op, neg = rs, ls, ast.Lt(), True
    sym = {ast.Is: 'is', ast.Eq: '==', ast.In: 'in', ast.Lt: '<'}[type(op)]
    if sym == '==' and rs < ls:
        ls, rs = rs, ls
    if sym == 'is' and ls == 'None':
        ls, rs = rs, ls
    a = ('atom', f'{ls} {sym} {rs}')
    return ('not', a) if neg else a


def atoms_of(f) -> List[str]:
    out = []

    def rec(g):
        if g[0] == 'atom':
            if g[1] not in out:
                out.append(g[1])
        elif g[0] == 'not':
            rec(g[1])
        elif g[0] in ('and', 'or'):
            for h in g[1]:
                rec(h)
    rec(f)
    return out


def evaluate(f, val: Dict[str, bool]) -> bool:
    if f[0] == 'atom':
        return val[f[1]]
    if f[0] == 'const':
        return f[1]
    if f[0] == 'not':
        return not evaluate(f[1], val)
    if f[0] == 'and':
        return all(evaluate(g, val) for g in f[1])
    if f[0] == 'or':
        return any(evaluate(g, val) for g in f[1])
    raise AssertionError(f)


def conj(fs):
    fs = list(fs)
    if not fs:
        return ('const', True)
    return ('and', fs) if len(fs) > 1 else fs[0]


def disj(fs):
    fs = list(fs)
    if not fs:
        return ('const', False)
    return ('or', fs) if len(fs) > 1 else fs[0]


def neg(f):
    return ('not', f)


def path_condition(path, env=None):
    """Conjunction of the branch tests taken on a path."""
    fs = []
    for node, truth in path.conds():
        g = formula(node, env)
        fs.append(g if truth else ('not', g))
    return conj(fs)


def compare(f, expected: Callable[[Dict[str, bool]], bool], naming: Dict[str, str],
            constraints: Optional[Callable[[Dict[str, bool]], bool]] = None) -> Tuple[bool, Optional[dict], List[str]]:
    """Compare formula `f` with the rule's formula.
    naming: canonical atom string -> rule atom name. Atoms of `f` that the rule does not name are
    returned in `unknown` (the caller decides: for 'depends only on' rules this is a violation).
    constraints: valuations to ignore (infeasible combinations of named atoms).
    Returns (equal, counterexample valuation over names, unknown atoms)."""
    ats = atoms_of(f)
    unknown = [a for a in ats if a not in naming]
    names = sorted(set(naming.values()))
    for bits in itertools.product([False, True], repeat=len(names)):
        nv = dict(zip(names, bits))
        if constraints is not None and not constraints(nv):
            continue
        # unknown atoms: the formula must agree with the expectation whatever their value
        for ub in itertools.product([False, True], repeat=len(unknown)):
            val = {a: nv[naming[a]] for a in ats if a in naming}
            val.update(dict(zip(unknown, ub)))
            if evaluate(f, val) != bool(expected(nv)):
                cex = dict(nv)
                cex.update({f'?{u}': b for u, b in zip(unknown, ub)})
                return False, cex, unknown
    return True, None, unknown


def show(f) -> str:
    if f[0] == 'atom':
        return f[1]
    if f[0] == 'const':
        return str(f[1])
    if f[0] == 'not':
        return f'not ({show(f[1])})'
    return '(' + (f' {f[0]} '.join(show(g) for g in f[1])) + ')'


def map_atoms(f, fn):
    """Rebuild a formula with every atom `a` replaced by fn(a) (a formula) when fn returns one."""
    if f[0] == 'atom':
        r = fn(f[1])
        return r if r is not None else f
    if f[0] == 'not':
        return ('not', map_atoms(f[1], fn))
    if f[0] in ('and', 'or'):
        return (f[0], [map_atoms(g, fn) for g in f[1]])
    return f
