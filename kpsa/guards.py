"""Guard truth tables: decompose boolean conditions into canonical atoms and compare with a rule's formula."""
from __future__ import annotations

import ast
import copy
import itertools
from typing import Callable, Dict, List, Optional, Tuple

from .errors import AnalysisError
from .astutil import clone
from .model import walk_local


# ----------------------------------------------------------------------- local alias substitution
def single_assignments(fnode) -> Dict[str, ast.AST]:
    """Locals assigned exactly once by a plain `name = expr` (not parameters, not loop targets,
    not augmented): safe to inline when canonicalising a condition."""
    counts: Dict[str, int] = {}
    values: Dict[str, ast.AST] = {}
    params = set()
    if not isinstance(fnode, ast.Lambda):
        a = fnode.args
        for x in a.posonlyargs + a.args + a.kwonlyargs:
            params.add(x.arg)
        if a.vararg:
            params.add(a.vararg.arg)
        if a.kwarg:
            params.add(a.kwarg.arg)
    for n in walk_local(fnode):
        if isinstance(n, ast.Assign):
            for t in n.targets:
                if isinstance(t, ast.Name):
                    counts[t.id] = counts.get(t.id, 0) + 1
                    values[t.id] = n.value
                else:
                    for s in ast.walk(t):
                        if isinstance(s, ast.Name) and isinstance(s.ctx, ast.Store):
                            counts[s.id] = counts.get(s.id, 0) + 2
        elif isinstance(n, ast.AnnAssign) and isinstance(n.target, ast.Name):
            counts[n.target.id] = counts.get(n.target.id, 0) + (1 if n.value is not None else 0)
            if n.value is not None:
                values[n.target.id] = n.value
        elif isinstance(n, (ast.AugAssign,)):
            if isinstance(n.target, ast.Name):
                counts[n.target.id] = counts.get(n.target.id, 0) + 2
        elif isinstance(n, (ast.For, ast.AsyncFor, ast.comprehension)):
            for s in ast.walk(n.target):
                if isinstance(s, ast.Name):
                    counts[s.id] = counts.get(s.id, 0) + 2
        elif isinstance(n, (ast.With, ast.AsyncWith)):
            for it in n.items:
                if it.optional_vars is not None:
                    for s in ast.walk(it.optional_vars):
                        if isinstance(s, ast.Name):
                            counts[s.id] = counts.get(s.id, 0) + 2
        elif isinstance(n, ast.ExceptHandler) and n.name:
            counts[n.name] = counts.get(n.name, 0) + 2
        elif isinstance(n, ast.NamedExpr):
            counts[n.target.id] = counts.get(n.target.id, 0) + 2
    return {k: v for k, v in values.items() if counts.get(k) == 1 and k not in params}


class _Subst(ast.NodeTransformer):
    def __init__(self, env, depth=0, recursive=True):
        self.env = env
        self.depth = depth
        self.recursive = recursive

    def visit_Name(self, node):
        if isinstance(node.ctx, ast.Load) and node.id in self.env and self.depth < 8:
            v = clone(self.env[node.id])
            if not self.recursive:
                return v
            return _Subst({k: w for k, w in self.env.items() if k != node.id}, self.depth + 1).visit(v)
        return node

    def visit_Lambda(self, node):
        return node


def substitute(node, env: Dict[str, ast.AST], recursive=True):
    """recursive=True: env values are raw right-hand sides (single-assignment locals);
    recursive=False: env values are already closed (symbolic execution)."""
    if not env:
        return node
    return _Subst(env, 0, recursive).visit(clone(node))


def norm(node, env=None) -> str:
    """Canonical source of an expression after inlining single-assignment locals."""
    return ast.unparse(substitute(node, env or {}))


# ----------------------------------------------------------------------- formulas
# formula := ('atom', key) | ('not', f) | ('and', [f..]) | ('or', [f..]) | ('const', bool)

def formula(node, env=None, truthy_atoms=True):
    node = substitute(node, env or {})
    return _formula(node)


def _formula(node):
    if isinstance(node, ast.BoolOp):
        fs = [_formula(v) for v in node.values]
        return ('and' if isinstance(node.op, ast.And) else 'or', fs)
    if isinstance(node, ast.UnaryOp) and isinstance(node.op, ast.Not):
        return ('not', _formula(node.operand))
    if isinstance(node, ast.Constant) and isinstance(node.value, bool):
        return ('const', node.value)
    if isinstance(node, ast.Compare):
        parts = []
        left = node.left
        for op, right in zip(node.ops, node.comparators):
            parts.append(_cmp_atom(left, op, right))
            left = right
        return parts[0] if len(parts) == 1 else ('and', parts)
    if isinstance(node, ast.Call) and isinstance(node.func, ast.Name) and node.func.id == 'bool' and len(node.args) == 1:
        return _formula(node.args[0])
    return ('atom', ast.unparse(node))


def _cmp_atom(l, op, r):
    ls, rs = ast.unparse(l), ast.unparse(r)
    neg = False
    if isinstance(op, ast.IsNot):
        op, neg = ast.Is(), True
    elif isinstance(op, ast.NotEq):
        op, neg = ast.Eq(), True
    elif isinstance(op, ast.NotIn):
        op, neg = ast.In(), True
    elif isinstance(op, ast.Gt):        # a > b  ==  b < a
        ls, rs, op = rs, ls, ast.Lt()
    elif isinstance(op, ast.GtE):       # a >= b ==  not (a < b)
        op, neg = ast.Lt(), True
    elif isinstance(op, ast.LtE):       # a <= b ==  not (b < a)
        ls, rs, op, neg = rs, ls, ast.Lt(), True
    sym = {ast.Is: 'is', ast.Eq: '==', ast.In: 'in', ast.Lt: '<'}[type(op)]
    if sym == '==' and rs < ls:
        ls, rs = rs, ls
    if sym == 'is' and ls == 'None':
        ls, rs = rs, ls
    a = ('atom', f'{ls} {sym} {rs}')
    return ('not', a) if neg else a


def atoms_of(f) -> List[str]:
    out = []

    def rec(g):
        if g[0] == 'atom':
            if g[1] not in out:
                out.append(g[1])
        elif g[0] == 'not':
            rec(g[1])
        elif g[0] in ('and', 'or'):
            for h in g[1]:
                rec(h)
    rec(f)
    return out


def evaluate(f, val: Dict[str, bool]) -> bool:
    if f[0] == 'atom':
        return val[f[1]]
    if f[0] == 'const':
        return f[1]
    if f[0] == 'not':
        return not evaluate(f[1], val)
    if f[0] == 'and':
        return all(evaluate(g, val) for g in f[1])
    if f[0] == 'or':
        return any(evaluate(g, val) for g in f[1])
    raise AssertionError(f)


def conj(fs):
    fs = list(fs)
    if not fs:
        return ('const', True)
    return ('and', fs) if len(fs) > 1 else fs[0]


def disj(fs):
    fs = list(fs)
    if not fs:
        return ('const', False)
    return ('or', fs) if len(fs) > 1 else fs[0]


def neg(f):
    return ('not', f)


def path_condition(path, env=None):
    """Conjunction of the branch tests taken on a path."""
    fs = []
    for node, truth in path.conds():
        g = formula(node, env)
        fs.append(g if truth else ('not', g))
    return conj(fs)


def compare(f, expected: Callable[[Dict[str, bool]], bool], naming: Dict[str, str],
            constraints: Optional[Callable[[Dict[str, bool]], bool]] = None) -> Tuple[bool, Optional[dict], List[str]]:
    """Compare formula `f` with the rule's formula.
    naming: canonical atom string -> rule atom name. Atoms of `f` that the rule does not name are
    returned in `unknown` (the caller decides: for 'depends only on' rules this is a violation).
    constraints: valuations to ignore (infeasible combinations of named atoms).
    Returns (equal, counterexample valuation over names, unknown atoms)."""
    ats = atoms_of(f)
    unknown = [a for a in ats if a not in naming]
    names = sorted(set(naming.values()))
    for bits in itertools.product([False, True], repeat=len(names)):
        nv = dict(zip(names, bits))
        if constraints is not None and not constraints(nv):
            continue
        # unknown atoms: the formula must agree with the expectation whatever their value
        for ub in itertools.product([False, True], repeat=len(unknown)):
            val = {a: nv[naming[a]] for a in ats if a in naming}
            val.update(dict(zip(unknown, ub)))
            if evaluate(f, val) != bool(expected(nv)):
                cex = dict(nv)
                cex.update({f'?{u}': b for u, b in zip(unknown, ub)})
                return False, cex, unknown
    return True, None, unknown


def show(f) -> str:
    if f[0] == 'atom':
        return f[1]
    if f[0] == 'const':
        return str(f[1])
    if f[0] == 'not':
        return f'not ({show(f[1])})'
    return '(' + (f' {f[0]} '.join(show(g) for g in f[1])) + ')'
