"""Generated-parser agreement: regenerate lexer/parser/listener from kern/*.g4 with the repository's own ANTLR jar
(offline, java 17) and compare byte for byte with the committed files, so that facts read from the grammar are facts
about the parser that runs.  Result cached by content digest under /verif/.cache (optional: rebuilt when absent)."""
from __future__ import annotations

import hashlib
import json
import os
import shutil
import subprocess
import tempfile

from .report import VERIF

FILES = ['kernSpineLexer.py', 'kernSpineParser.py', 'kernSpineParserListener.py']
GEN = 'kernpy/core/generated'


def check(ctx, rule):
    prog = ctx.prog
    jar = os.path.join(prog.root, 'antlr-4.13.1-complete.jar')
    at = 'kern/kernSpineParser.g4:1'
    fn = 'kernpy.core.generated.kernSpineParser'
    if shutil.which('java') is None or not os.path.exists(jar):
        ctx.note(rule, at, fn, 'generated-parser agreement skipped: java or the ANTLR jar is not available')
        return None
    texts = {n: prog.read(f'kern/{n}') for n in ('kernSpineLexer.g4', 'kernSpineParser.g4')}
    committed = {n: prog.read(f'{GEN}/{n}') for n in FILES}
    h = hashlib.sha256()
    for k in sorted(texts):
        h.update(texts[k].encode())
    for k in sorted(committed):
        h.update(committed[k].encode())
    with open(jar, 'rb') as f:
        h.update(hashlib.sha256(f.read()).digest())
    key = h.hexdigest()
    cache = os.path.join(VERIF, '.cache', f'regen-{key}.json')
    res = None
    if os.path.exists(cache):
        try:
            res = json.load(open(cache))
        except Exception:
            res = None
    if res is None:
        tmp = tempfile.mkdtemp(prefix='kpsa-regen-')
        try:
            for n, t in texts.items():
                with open(os.path.join(tmp, n), 'w', encoding='utf-8') as f:
                    f.write(t)
            cmds = [['java', '-jar', jar, '-encoding', 'utf-8', '-Dlanguage=Python3', 'kernSpineLexer.g4'],
                    ['java', '-jar', jar, '-encoding', 'utf-8', '-listener', '-Dlanguage=Python3', 'kernSpineParser.g4']]
            err = ''
            for c in cmds:
                r = subprocess.run(c, cwd=tmp, capture_output=True, text=True, timeout=120)
                if r.returncode != 0:
                    err = (r.stderr or r.stdout)[-300:]
                    break
            diffs = []
            if not err:
                for n in FILES:
                    p = os.path.join(tmp, n)
                    if not os.path.exists(p):
                        diffs.append(f'{n}: not generated')
                        continue
                    new = open(p, encoding='utf-8').read()
                    if new != committed[n]:
                        a, b = new.splitlines(), committed[n].splitlines()
                        line = next((i + 1 for i, (x, y) in enumerate(zip(a, b)) if x != y), min(len(a), len(b)) + 1)
                        diffs.append(f'{n}: differs from the regenerated file at line {line}')
            res = {'error': err, 'diffs': diffs}
        finally:
            shutil.rmtree(tmp, ignore_errors=True)
        try:
            os.makedirs(os.path.dirname(cache), exist_ok=True)
            json.dump(res, open(cache, 'w'))
        except Exception:
            pass
    if res['error']:
        ctx.violation(rule, at, fn, 'grammar-does-not-generate', f'the ANTLR tool rejects the grammar: {res["error"]}')
        return False
    ctx.check(not res['diffs'], rule, at, fn, 'generated-parser-differs-from-grammar',
              'the committed lexer, parser and listener are byte-identical to what the grammar generates (ANTLR 4.13.1, offline)',
              f'the committed generated files are not what kern/*.g4 generates: {res["diffs"][:3]} - the parser that runs is not the '
              f'grammar the rules were read from')
    return not res['diffs']
