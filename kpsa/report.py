"""Rule-instance bookkeeping, known findings, evidence and the output protocol."""
from __future__ import annotations

import json
import os
import time
from typing import List, Optional

from .errors import AnalysisError

VERIF = os.path.dirname(os.path.dirname(os.path.abspath(__file__)))


class Instance:
    __slots__ = ('rule', 'at', 'function', 'construct', 'verdict', 'fact', 'known', '_what')

    def __init__(self, rule, at, function, construct, verdict, fact):
        self.rule = rule
        self.at = at
        self.function = function
        self.construct = construct
        self.verdict = verdict   # holds | violation | note
        self.fact = fact
        self.known = None
        self._what = ''

    def as_dict(self):
        d = {'rule': self.rule, 'at': self.at, 'function': self.function, 'verdict': self.verdict,
             'fact': self.fact}
        if self.construct:
            d['construct'] = self.construct
        if self.known:
            d['known_finding'] = self.known
        return d


class Context:
    def __init__(self, prog, prop: str, tier: str, seed: int = 0):
        self.prog = prog
        from .consteval import ConstEval
        self.ce = ConstEval(prog)
        self.prop = prop
        self.tier = tier
        self.seed = seed
        self.instances: List[Instance] = []
        self.not_decided: List[str] = []
        self.analysed = {}
        self.extra = {}
        self.assumptions: List[str] = []
        self.explanation = ''
        self.level = 'other'
        self.exhaustive = False
        self.trusted_base: List[str] = []
        self.alias = {}     # rule-label aliases while a rule shared with another property runs

    # -- recording -------------------------------------------------------------
    def holds(self, rule, at, function, fact):
        self.instances.append(Instance(f'{self.prop}.{self.alias.get(rule, rule)}', at, function, None, 'holds', fact))

    def violation(self, rule, at, function, construct, fact):
        """construct: normalised key (no line numbers / local names) used to match known findings."""
        self.instances.append(Instance(f'{self.prop}.{self.alias.get(rule, rule)}', at, function, construct, 'violation', fact))

    def note(self, rule, at, function, fact):
        self.instances.append(Instance(f'{self.prop}.{self.alias.get(rule, rule)}', at, function, None, 'note', fact))

    def check(self, cond, rule, at, function, construct, fact_ok, fact_bad=None):
        if cond:
            self.holds(rule, at, function, fact_ok)
        else:
            self.violation(rule, at, function, construct, fact_bad or ('NOT: ' + fact_ok))
        return bool(cond)

    def expect_count(self, rule, what, found, minimum):
        if found < minimum:
            if any(i.verdict == 'violation' and i.rule == f'{self.prop}.{self.alias.get(rule, rule)}' for i in self.instances):
                return   # the missing instances were reported as violations of this rule
            raise AnalysisError(f'rule={self.prop}.{rule} {what}: expected>={minimum} found={found} '
                                f'(anchor moved or idiom no longer recognised)')

    def count(self, key, n=1):
        self.analysed[key] = self.analysed.get(key, 0) + n

    # -- known findings ----------------------------------------------------------
    def apply_known_findings(self, path=None):
        path = path or os.path.join(VERIF, 'known_findings.json')
        try:
            with open(path, encoding='utf-8') as f:
                kf = json.load(f)
        except FileNotFoundError:
            kf = {'findings': []}
        for inst in self.instances:
            if inst.verdict != 'violation':
                continue
            for k in kf.get('findings', []):
                if (k.get('property') == self.prop and k.get('rule') == inst.rule
                        and k.get('function') == inst.function and k.get('construct') == inst.construct):
                    inst.known = k.get('id', 'known')
                    inst._what = k.get('what_fails', '')  # type: ignore[attr-defined]
        return kf

    # -- results -----------------------------------------------------------------
    @property
    def violations(self):
        return [i for i in self.instances if i.verdict == 'violation' and not i.known]

    @property
    def known(self):
        return [i for i in self.instances if i.verdict == 'violation' and i.known]


def write_evidence(ctx: Context, wall: float, evidence_path: str, selftest=None):
    inst = [i for i in ctx.instances if i.verdict != 'note']
    obligations = len(inst)
    discharged = len([i for i in inst if i.verdict == 'holds'])
    distinct = len({(i.rule, i.function, i.at.split(':')[0], i.fact) for i in inst if i.at and ':' in i.at})
    # samples: one per rule first, then fill up
    samples, seen = [], set()
    for i in inst:
        if i.rule not in seen:
            seen.add(i.rule)
            samples.append(i.as_dict())
    for i in inst:
        if len(samples) >= 40:
            break
        d = i.as_dict()
        if d not in samples:
            samples.append(d)
    cov = {
        'explanation': ctx.explanation,
        'obligations': obligations,
        'discharged': discharged,
        'evaluations': obligations,
        'distinct_nontrivial': distinct,
        'rule': 'one evaluation = one rule instance (rule x construct of /repo analysed on this run); '
                'non-trivial and distinct = distinct (rule, function, file, fact) tuples anchored at a real '
                'file:line of the analysed tree',
        'samples': samples,
        'analysed': ctx.analysed,
        'rules': sorted({i.rule for i in inst}),
        'not_decided': ctx.not_decided,
        'known_findings': sorted({i.known for i in ctx.known}),
        'notes': [i.as_dict() for i in ctx.instances if i.verdict == 'note'][:30],
        'exhaustive': bool(ctx.exhaustive),
        'checker_cmd': f'./check {ctx.prop} --tier {ctx.tier}',
        'trusted_base': ctx.trusted_base or ['CPython ast module', 'kpsa engine (this repository)',
                                             'CPython semantics of the modelled constructs'],
    }
    cov.update(ctx.extra)
    if selftest is not None:
        cov['selftest'] = selftest
    ev = {
        'property_id': ctx.prop,
        'tier': ctx.tier,
        'seed': ctx.seed,
        'level': ctx.level,
        'coverage': cov,
        'assumptions': ctx.assumptions or ['CPython semantics of the modelled constructs',
                                           'no monkey-patching / exec / reflection in kernpy (linted on every run)'],
        'wall_s': round(wall, 3),
        'violations': len(ctx.violations),
    }
    os.makedirs(os.path.dirname(evidence_path), exist_ok=True)
    tmp = evidence_path + '.tmp'
    with open(tmp, 'w', encoding='utf-8') as f:
        json.dump(ev, f, indent=1, ensure_ascii=False, default=str)
        f.write('\n')
    os.replace(tmp, evidence_path)
    return ev
