"""kpsa - kernpy static analysis: repository-specific static checkers for properties C01-C20."""
