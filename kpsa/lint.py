"""Trusted-base lint: constructs the engine does not model must be absent from kernpy."""
import ast

from .errors import AnalysisError

FORBIDDEN_CALLS = {'exec', 'eval', 'compile', '__import__'}


def no_reflection(ctx):
    bad = []
    n = 0
    for m in ctx.prog.app_modules():
        for node in ast.walk(m.tree):
            n += 1
            if isinstance(node, ast.Call) and isinstance(node.func, ast.Name):
                if node.func.id in FORBIDDEN_CALLS:
                    bad.append(f'{m.relpath}:{node.lineno} {node.func.id}()')
                if node.func.id in ('globals', 'locals', 'vars'):
                    p = m.parent(node)
                    if (isinstance(p, ast.Subscript) and isinstance(p.ctx, (ast.Store, ast.Del))) or \
                            (isinstance(p, ast.Attribute) and p.attr in ('update', 'pop', 'clear', 'setdefault',
                                                                         '__setitem__')):
                        bad.append(f'{m.relpath}:{node.lineno} {node.func.id}() write')
            if isinstance(node, ast.Attribute) and node.attr == '__dict__' and isinstance(node.ctx, ast.Load):
                p = m.parent(node)
                if isinstance(p, ast.Subscript) and isinstance(p.ctx, (ast.Store, ast.Del)):
                    bad.append(f'{m.relpath}:{node.lineno} __dict__ write')
                if isinstance(p, ast.Attribute) and p.attr in ('update', 'pop', 'clear', 'setdefault'):
                    bad.append(f'{m.relpath}:{node.lineno} __dict__.{p.attr}')
    ctx.analysed['ast_nodes_linted'] = n
    if bad:
        raise AnalysisError('reflection the engine does not model: ' + '; '.join(bad[:5]))
