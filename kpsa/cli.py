"""./check <ID> [--tier quick|thorough] [--replay <path>] [--repo <dir>]"""
from __future__ import annotations

import argparse
import importlib
import json
import os
import sys
import time
import traceback

from .errors import AnalysisError
from .report import Context, write_evidence, VERIF

ALL = [f'C{n:02d}' for n in range(1, 21)]


_GUARDED = False
_CURRENT = [None]


def _install_rule_guards():
    """Every rule entry (a function `rN_...`, `check_...`, or a shared rule, whose first parameter is `ctx`) is made
    independent of the others: an AnalysisError inside one rule is recorded and the next rule still runs.  A rule whose input
    was to be produced by a rule that failed is skipped.  The verdict logic is in run_property: violations found by the rules
    that completed are reported; without any violation the first recorded error makes the run exit 2."""
    global _GUARDED
    if _GUARDED:
        return
    _GUARDED = True
    import functools
    import inspect
    import pkgutil
    import re
    from . import rules as rules_pkg
    mods = []
    for m in pkgutil.iter_modules(rules_pkg.__path__):
        mods.append(importlib.import_module(f'kpsa.rules.{m.name}'))
    pat = re.compile(r'^(r\d+[a-z]?_|check_|whole_cell_|plain_encodings_|effect_free$|note_receives_)')
    wrapped = {}

    def guard(fn):
        if fn in wrapped:
            return wrapped[fn]

        @functools.wraps(fn)
        def w(ctx, *a, **k):
            cur = _CURRENT[0]
            if cur is None or cur is not ctx:
                return fn(ctx, *a, **k)
            if ctx.errors and any(x is None for x in a):
                ctx.errors.append(AnalysisError(f'{fn.__name__} skipped: its input was not produced'))
                return None
            try:
                return fn(ctx, *a, **k)
            except AnalysisError as e:
                ctx.errors.append(e)
                return None
            except (TypeError, AttributeError, KeyError, IndexError):
                if ctx.errors:          # a consequence of an input that an earlier, failed rule should have produced
                    ctx.errors.append(AnalysisError(f'{fn.__name__} could not run after an earlier analysis error'))
                    return None
                raise
        wrapped[fn] = w
        return w
    for mod in mods:
        for name, obj in list(vars(mod).items()):
            if inspect.isfunction(obj) and obj.__module__.startswith('kpsa.rules') and pat.match(obj.__name__):
                params = list(inspect.signature(obj).parameters)
                if params and params[0] == 'ctx':
                    setattr(mod, name, guard(obj))


def run_property(prop: str, tier: str, repo: str, overlay=None, seed: int = 0, known_path=None):
    """Analyse one property on a tree; returns the Context. Raises AnalysisError."""
    from .model import Program
    from . import lint
    mod = importlib.import_module(f'kpsa.rules.{prop.lower()}')
    prog = Program(repo, overlay=overlay)
    ctx = Context(prog, prop, tier, seed)
    lint.no_reflection(ctx)
    from . import symex
    symex.INLINER = symex.Inliner(ctx)
    symex._CACHE.clear()
    symex._PARAM_MUT.clear()
    _install_rule_guards()
    ctx.errors = []
    _CURRENT[0] = ctx
    try:
        try:
            mod.run(ctx)
        except AnalysisError as e:
            ctx.errors.append(e)
        # rules are independent: violations reported by the rules that completed stand on their own; an anchor that another
        # rule no longer finds (often a consequence of the same change) is recorded, not allowed to hide them
        ctx.apply_known_findings(known_path)    # a listed finding is not a reason to pass over a rule that could not be evaluated
        if ctx.errors and not ctx.violations:
            raise ctx.errors[0]
        if ctx.errors:
            ctx.analysed['rules_not_evaluated'] = [str(e)[:200] for e in ctx.errors[:5]]
    finally:
        _CURRENT[0] = None
        ctx.analysed['helper_calls_inlined'] = symex.INLINER.count
        symex.INLINER = None
        symex._CACHE.clear()
    ctx.apply_known_findings(known_path)
    ctx.analysed.setdefault('modules', len(prog.modules))
    ctx.analysed.setdefault('functions', len(prog.functions))
    return ctx


def main(argv=None) -> int:
    ap = argparse.ArgumentParser(prog='check')
    ap.add_argument('property')
    ap.add_argument('--tier', default=None, choices=['quick', 'thorough'])
    ap.add_argument('--replay', default=None)
    ap.add_argument('--repo', default=os.environ.get('KPSA_REPO', '/repo'))
    ap.add_argument('--no-evidence', action='store_true')
    ap.add_argument('--no-selftest', action='store_true')
    args = ap.parse_args(argv)
    prop = args.property.upper()
    tier = os.environ.get('VERIF_TIER') or args.tier or 'quick'
    if tier not in ('quick', 'thorough'):
        tier = 'quick'
    try:
        seed = int(os.environ.get('VERIF_SEED', '0'))
    except ValueError:
        seed = 0
    if prop not in ALL:
        print(f'ANALYSIS-ERROR unknown property {prop}')
        return 2
    t0 = time.time()
    evidence_path = os.path.join(VERIF, 'evidence', f'{prop}.json')
    try:
        if args.replay:
            with open(args.replay, encoding='utf-8') as f:
                rec = json.load(f)
            print(f'replaying {len(rec.get("findings", []))} recorded finding(s) of {prop} against {args.repo}:')
            for r in rec.get('findings', []):
                print(f'  recorded: {r["at"]} {r["function"]} {r["rule"]} - {r["fact"]}')
        ctx = run_property(prop, tier, args.repo, seed=seed)
        selftest = None
        # the checker's own corpus gates only a CLEAN verdict: on a tree with violations every variant inherits them
        if tier == 'thorough' and not args.no_selftest and not ctx.violations:
            from . import selftest as st
            selftest = st.run(prop, args.repo, seed)
            if selftest.get('failed'):
                for line in selftest['failed']:
                    print(f'ANALYSIS-ERROR selftest {line}')
                print(f'ANALYSIS-ERROR property={prop} the checker failed its own variant corpus; verdict withheld')
                return 2
        wall = time.time() - t0
        if not args.no_evidence:
            write_evidence(ctx, wall, evidence_path, selftest)
        for k in ctx.known:
            what = getattr(k, '_what', '') or k.fact
            print(f'KNOWN-FINDING: property={prop} {k.known} {k.rule} {k.function}: {what}')
        n_inst = len([i for i in ctx.instances if i.verdict != "note"])
        if ctx.violations:
            vpath = os.path.join(VERIF, 'evidence', f'{prop}.violation.json')
            with open(vpath, 'w', encoding='utf-8') as f:
                json.dump({'property': prop, 'tier': tier, 'repo': args.repo,
                           'findings': [v.as_dict() for v in ctx.violations]}, f, indent=1, ensure_ascii=False)
            print(f'VIOLATION property={prop} replay={vpath}')
            for v in ctx.violations:
                print(f'  {v.at} {v.function} {v.rule} [{v.construct}] - {v.fact}')
            print(f'{prop} {tier}: {n_inst} rule instances, {len(ctx.violations)} violation(s), '
                  f'{len(ctx.known)} known finding(s), {wall:.2f}s')
            return 1
        print(f'{prop} {tier}: OK {n_inst - len(ctx.known)} rule instances hold, '
              f'{len(ctx.known)} known finding(s), {wall:.2f}s'
              + (f'; selftest {selftest["summary"]}' if selftest else ''))
        return 0
    except AnalysisError as e:
        print(f'ANALYSIS-ERROR property={prop} {e}')
        return 2
    except Exception as e:  # internal error: never a verdict
        traceback.print_exc()
        print(f'ANALYSIS-ERROR property={prop} internal error: {type(e).__name__}: {e}')
        return 2


if __name__ == '__main__':
    sys.exit(main())
