"""Fact extraction helpers shared by the rules: constant folding, argument binding, dispatch tables."""
from __future__ import annotations

import ast
import copy
import itertools
from typing import Dict, List, Optional

from .errors import AnalysisError
from .astutil import clone
from .consteval import EnumMember, ClassRef, NotConst
from .model import FuncInfo, ClassInfo, src
from . import guards as G
from . import symex


# ----------------------------------------------------------------------- constant folding
class _Fold(ast.NodeTransformer):
    def __init__(self, ctx, mod, cls, skip_names=()):
        self.ctx, self.mod, self.cls = ctx, mod, cls
        self.skip = set(skip_names)

    def _try(self, node):
        if isinstance(node, ast.Name) and node.id in self.skip:
            return node
        base = node
        while isinstance(base, ast.Attribute):
            base = base.value
        if isinstance(base, ast.Name) and (base.id in self.skip or '#' in base.id or '@' in base.id):
            is_class_const = (base.id in ('self', 'cls') and self.cls is not None and isinstance(node, ast.Attribute)
                              and isinstance(node.value, ast.Name)
                              and self.ctx.prog.find_class_attr(self.cls, node.attr) is not None)
            if not is_class_const:
                return None
        try:
            v = self.ctx.ce.eval(node, self.mod, self.cls, {})
        except NotConst:
            return None
        except AnalysisError:
            return None
        if isinstance(v, (str, int, bool)) or v is None:
            return ast.copy_location(ast.Constant(value=v), node)
        if isinstance(v, EnumMember):
            return ast.copy_location(
                ast.Attribute(value=ast.Name(id=v.cls.rpartition('.')[2], ctx=ast.Load()), attr=v.name,
                              ctx=ast.Load()), node)
        return None

    def visit_Attribute(self, node):
        if isinstance(node.ctx, ast.Load):
            r = self._try(node)
            if r is not None:
                return r
        return self.generic_visit(node)

    def visit_Name(self, node):
        if isinstance(node.ctx, ast.Load) and node.id not in ('self', 'cls'):
            r = self._try(node)
            if r is not None and isinstance(r, ast.Constant):
                return r
        return node

    def visit_Lambda(self, node):
        return node


def fold(ctx, node, fi: FuncInfo, extra_skip=()):
    """Replace sub-expressions that are compile-time constants (module/class constants, enum values)
    by literals; function parameters and locals are never folded."""
    skip = set(fi.all_params) | set(extra_skip) | _local_names(fi)
    return _Fold(ctx, fi.module, fi.cls, skip).visit(clone(node))


def _local_names(fi: FuncInfo):
    out = set()
    from .model import walk_local
    for n in walk_local(fi.node):
        if isinstance(n, ast.Name) and isinstance(n.ctx, ast.Store):
            out.add(n.id)
    return out


# ----------------------------------------------------------------------- calls
def callee(ctx, call: ast.Call, fi: FuncInfo):
    """Resolve a call whose function is a (dotted) name: ('def', FuncInfo) | ('class', ClassInfo) | ('external', name) | None"""
    return ctx.prog.resolve_expr(fi.module, call.func, fi.cls)


def bind_args(call: ast.Call, target: FuncInfo, bound_receiver: bool) -> Dict[str, ast.AST]:
    """Map the target's parameter names to the argument expressions of `call`.
    bound_receiver: the first parameter (self/cls) is supplied by the receiver."""
    params = list(target.params)
    if bound_receiver and target.kind in ('method', 'classmethod') and params:
        params = params[1:]
    out: Dict[str, ast.AST] = {}
    for i, a in enumerate(call.args):
        if isinstance(a, ast.Starred):
            raise AnalysisError(f'star-args at line {call.lineno} not modelled')
        if i < len(params):
            out[params[i]] = a
        elif target.node.args.vararg is None:
            raise AnalysisError(f'too many positional arguments for {target.qualname} at line {call.lineno}')
    for k in call.keywords:
        if k.arg is None:
            out['**'] = k.value
        else:
            out[k.arg] = k.value
    return out


def param_default(fi: FuncInfo, name: str):
    a = fi.node.args
    pos = a.posonlyargs + a.args
    defaults = [None] * (len(pos) - len(a.defaults)) + list(a.defaults)
    for p, d in zip(pos, defaults):
        if p.arg == name:
            return d
    for p, d in zip(a.kwonlyargs, a.kw_defaults):
        if p.arg == name:
            return d
    return None


# ----------------------------------------------------------------------- dispatch tables (A9)
def dispatch_table(ctx, fi: FuncInfo, subject: str, extra_values=(), allow_atoms=()):
    """A function written as an if-chain over equality tests on one subject expression is turned into a
    table {constant -> (end, value-node, SymPath)} plus the entry for 'any other value' under key Ellipsis.
    Atoms that are not equality tests on the subject raise AnalysisError unless listed in allow_atoms
    (then both valuations are explored and must agree)."""
    sps = symex.func_sym_paths(fi)
    dd = _dict_dispatch(ctx, fi, subject, sps, extra_values)
    if dd is not None:
        return dd
    try:
        table = _chain_dispatch(ctx, fi, subject, sps, extra_values, allow_atoms)
        # conditional expressions / look-ups left inside a returned value are resolved for the key
        if any(v[1] is not None and any(isinstance(n, (ast.IfExp, ast.Subscript)) or (isinstance(n, ast.Call) and isinstance(n.func, ast.Attribute)
                                                                                     and n.func.attr == 'get') for n in ast.walk(v[1]))
               for v in table.values()):
            if any(v[1] is not None and any(isinstance(n, ast.IfExp) for n in ast.walk(v[1])) for v in table.values()):
                # the keys the if-chain recogniser saw do not include those tested inside the expression
                return dispatch_by_specialisation(ctx, fi, subject, sps, extra_values, allow_atoms)
        return table
    except AnalysisError as first:
        try:
            return dispatch_by_specialisation(ctx, fi, subject, sps, extra_values, allow_atoms)
        except AnalysisError as second:
            raise AnalysisError(f'{first}; and by specialisation: {second}')


def _chain_dispatch(ctx, fi, subject, sps, extra_values, allow_atoms):
    consts = []
    atom_info = {}
    for sp in sps:
        f = G._formula(fold(ctx, _conj_node(sp), fi)) if sp.conds else ('const', True)
        sp._f = f  # type: ignore[attr-defined]
        for a in G.atoms_of(f):
            if a in atom_info:
                continue
            k = _subject_eq(a, subject)
            if k is None and a.startswith(f'{subject} in '):
                try:
                    cn = ast.parse(a[len(f'{subject} in '):], mode='eval').body
                    keys = None
                    if isinstance(cn, ast.Dict):
                        keys = [ctx.ce.eval(x, fi.module, fi.cls, {}) for x in cn.keys]
                    else:
                        okk, vv = ctx.ce.try_eval(cn, fi.module, fi.cls, {})
                        keys = list(vv) if okk else None
                    if keys is not None:
                        atom_info[a] = ('in', tuple(keys))
                        for kk in keys:
                            if kk not in consts:
                                consts.append(kk)
                        continue
                except Exception:
                    pass
            if k is None and a == f'{subject} is None':
                atom_info[a] = ('isnone', None)
                continue
            if k is None:
                if a in allow_atoms:
                    atom_info[a] = ('free', None)
                    continue
                raise AnalysisError(f'{fi.loc} {fi.qualname}: condition `{a}` is not an equality test on `{subject}`')
            atom_info[a] = ('eq', k)
            if k not in consts:
                consts.append(k)
    table = {}
    keys = list(consts) + [v for v in extra_values if v not in consts] + [Ellipsis]
    if any(k == 'isnone' for k, _ in atom_info.values()):
        keys.append(None)
    for c in keys:
        free = [a for a, (k, _) in atom_info.items() if k == 'free']
        results = []
        for bits in itertools.product([False, True], repeat=len(free)):
            val = {a: (kv[1] == c and c is not None) for a, kv in atom_info.items() if kv[0] == 'eq'}
            val.update({a: (c is None) for a, kv in atom_info.items() if kv[0] == 'isnone'})
            val.update({a: (c in kv[1]) for a, kv in atom_info.items() if kv[0] == 'in'})
            val.update(dict(zip(free, bits)))
            taken = [sp for sp in sps if G.evaluate(sp._f, val)]
            if len(taken) != 1:
                raise AnalysisError(f'{fi.loc} {fi.qualname}: {len(taken)} paths for {subject} == {c!r}')
            results.append(taken[0])
        def _shape(sp_):
            v_ = sp_.value
            return (sp_.end, ast.unparse(v_.func) if isinstance(v_, ast.Call) else (ast.unparse(v_) if v_ is not None else None))
        if any(_shape(r) != _shape(results[0]) for r in results):
            raise AnalysisError(f'{fi.loc} {fi.qualname}: result for {subject} == {c!r} depends on {free}')
        sp = results[0]
        table[c] = (sp.end, _resolve_lookup(ctx, fi, sp.value, subject, c), sp)
    return table


def _resolve_lookup(ctx, fi, value, subject, c):
    """`{k: v, ...}[subject]` with the subject fixed to the constant c -> v"""
    if value is None or c is Ellipsis or c is None:
        return value

    class T(ast.NodeTransformer):
        def visit_Subscript(self, n):
            self.generic_visit(n)
            if isinstance(n.value, ast.Dict) and ast.unparse(n.slice) == subject:
                for k, v in zip(n.value.keys, n.value.values):
                    try:
                        if k is not None and ctx.ce.eval(k, fi.module, fi.cls, {}) == c:
                            return v
                    except Exception:
                        pass
            return n
    return T().visit(clone(value))


def _dict_dispatch(ctx, fi, subject, sps, extra_values):
    """The lookup-table idiom: `return TABLE.get(subject, DEFAULT)()` / `TABLE[subject]()` / without the call, where TABLE
    is a dict display with constant keys (a module / class constant or a local)."""
    rets = [sp for sp in sps if sp.end == 'return']
    if len(rets) != 1 or len(sps) != 1 or rets[0].conds:
        return None
    sp = rets[0]
    val = sp.value
    called = False
    if isinstance(val, ast.Call) and not val.args and not val.keywords and isinstance(val.func, (ast.Call, ast.Subscript)):
        called, look = True, val.func
    else:
        look = val
    default = None
    if isinstance(look, ast.Call) and isinstance(look.func, ast.Attribute) and look.func.attr == 'get' and 1 <= len(look.args) <= 2 \
            and ast.unparse(look.args[0]) == subject:
        table_expr = look.func.value
        default = look.args[1] if len(look.args) == 2 else ast.Constant(value=None)
    elif isinstance(look, ast.Subscript) and ast.unparse(look.slice) == subject:
        table_expr = look.value
    else:
        return None
    dnode = table_expr
    if isinstance(table_expr, (ast.Name, ast.Attribute)):
        r = ctx.prog.resolve_expr(fi.module, table_expr, fi.cls)
        if not (r and r[0] == 'assign'):
            return None
        dnode = r[1]
    if not isinstance(dnode, ast.Dict):
        return None
    table = {}
    for k, v in zip(dnode.keys, dnode.values):
        if k is None:
            return None
        ok, kv = ctx.ce.try_eval(k, fi.module, fi.cls, {})
        if not ok:
            return None
        if isinstance(kv, EnumMember):
            kv = f'{kv.cls.rpartition(".")[2]}.{kv.name}'
        if kv in table:
            raise AnalysisError(f'{fi.loc}: duplicate key {kv!r} in the dispatch table')
        node = ast.Call(func=v, args=[], keywords=[]) if called else v
        table[kv] = ('return', node, sp)
    if default is not None:
        dn = ast.Call(func=default, args=[], keywords=[]) if called else default
        other = ('return', dn, _Other(sp))
    else:
        other = ('raise', None, _Other(sp))
    for c in list(extra_values) + [Ellipsis]:
        if c not in table:
            table[c] = other
    return table


class _Other:
    """a distinct path object for the default entry of a lookup-table dispatch"""
    def __init__(self, sp):
        self.sp = sp
        self.end = sp.end
        self.value = sp.value
        self.path = sp.path


def _conj_node(sp):
    vals = []
    for node, truth in sp.conds:
        vals.append(node if truth else ast.UnaryOp(op=ast.Not(), operand=node))
    if len(vals) == 1:
        return vals[0]
    return ast.BoolOp(op=ast.And(), values=vals)


def _subject_eq(atom: str, subject: str):
    """atom is canonical 'x == y' with x<y lexicographically; return the constant if one side is the subject."""
    if ' == ' not in atom:
        return None
    l, _, r = atom.partition(' == ')
    other = r if l == subject else (l if r == subject else None)
    if other is None:
        return None
    try:
        node = ast.parse(other, mode='eval').body
    except SyntaxError:
        return None
    if isinstance(node, ast.Constant):
        return node.value
    if isinstance(node, ast.Attribute) and isinstance(node.value, ast.Name):
        return other     # enum member canonical 'Cls.MEMBER'
    return None


def constructed_class(ctx, node, fi: FuncInfo) -> Optional[ClassInfo]:
    """If `node` is a call of a kernpy class, return that class."""
    if isinstance(node, ast.Call):
        r = callee(ctx, node, fi)
        if r and r[0] == 'class':
            return r[1]
    return None


def is_name(node, name: str) -> bool:
    return isinstance(node, ast.Name) and node.id == name


def is_attr_of(node, base: str, attr: str) -> bool:
    return isinstance(node, ast.Attribute) and node.attr == attr and is_name(node.value, base)


# ----------------------------------------------------------------------- concrete region evaluation (A5)
class _Replace(ast.NodeTransformer):
    def __init__(self, mapping):
        self.mapping = mapping

    def visit(self, node):
        if isinstance(node, ast.expr):
            s = ast.unparse(node)
            if s in self.mapping:
                return ast.Constant(value=self.mapping[s])
        return super().visit(node)


def eval_concrete(ctx, node, mapping, mod):
    """Evaluate an integer/boolean expression after replacing the sub-expressions listed in `mapping`
    (source text -> int/None) by constants. Used to enumerate the regions of difference-bound guards:
    the checker evaluates comparisons between integers, it never runs repository code."""
    from .consteval import NotConst
    n = _Replace(mapping).visit(clone(node))
    try:
        return True, ctx.ce.eval(n, mod, None, {})
    except NotConst:
        return False, None
    except TypeError:
        return False, None


def project(body, names):
    """Keep only the assignments to `names` and the if-structure around them."""
    out = []
    for st in body:
        if isinstance(st, ast.Assign) and any(isinstance(t, ast.Name) and t.id in names for t in st.targets):
            out.append(st)
        elif isinstance(st, ast.AugAssign) and isinstance(st.target, ast.Name) and st.target.id in names:
            out.append(st)
        elif isinstance(st, ast.If):
            b, o = project(st.body, names), project(st.orelse, names)
            if b or o:
                out.append(ast.If(test=st.test, body=b or [ast.Pass()], orelse=o, lineno=st.lineno, col_offset=0))
        elif isinstance(st, (ast.For, ast.While, ast.Try, ast.With)):
            for n in ast.walk(st):
                if isinstance(n, ast.Name) and isinstance(n.ctx, ast.Store) and n.id in names:
                    raise AnalysisError(f'line {st.lineno}: `{n.id}` is assigned inside a loop/try: region analysis not applicable')
    return out


# ----------------------------------------------------------------------- canonical call form
def _static_callee(ctx, call: ast.Call, fi: FuncInfo):
    """(FuncInfo, bound_receiver) for calls that resolve without flow typing: names, Class.method, module.func,
    self/cls methods, methods on a freshly constructed kernpy object (`Exporter().export_string(...)`)."""
    f = call.func
    prog = ctx.prog
    if isinstance(f, ast.Name):
        r = prog.resolve_expr(fi.module, f, None)
        if r and r[0] == 'def':
            return r[1], False
        if r and r[0] == 'class':
            init = prog.find_method(r[1], '__init__')
            return (init, True) if init is not None else (None, False)
        return None, False
    if isinstance(f, ast.Attribute):
        base = f.value
        if isinstance(base, ast.Name) and base.id in ('self', 'cls') and fi.cls is not None:
            m = prog.find_method(fi.cls, f.attr)
            return (m, True) if m is not None else (None, False)
        if isinstance(base, (ast.Name, ast.Attribute)):
            r = prog.resolve_expr(fi.module, f, None)
            if r and r[0] == 'def':
                t = r[1]
                return t, t.kind in ('classmethod',) or False
            if r and r[0] == 'class':
                init = prog.find_method(r[1], '__init__')
                return (init, True) if init is not None else (None, False)
        if isinstance(base, ast.Call):
            c = constructed_class(ctx, base, fi)
            if c is not None:
                m = prog.find_method(c, f.attr)
                return (m, True) if m is not None else (None, False)
    return None, False


class _CanonCalls(ast.NodeTransformer):
    def __init__(self, ctx, fi):
        self.ctx, self.fi = ctx, fi

    def visit_Call(self, node):
        self.generic_visit(node)
        try:
            target, bound = _static_callee(self.ctx, node, self.fi)
        except AnalysisError:
            return node
        if target is None or any(isinstance(a, ast.Starred) for a in node.args) or any(k.arg is None for k in node.keywords):
            return node
        if target.node.args.vararg is not None:
            return node
        try:
            b = bind_args(node, target, bound and target.kind in ('method', 'classmethod'))
        except AnalysisError:
            return node
        order = target.all_params
        kws = []
        for p in order:
            if p in b:
                d = param_default(target, p)
                if d is not None and ast.unparse(d) == ast.unparse(b[p]):
                    continue      # an explicitly passed default equals an omitted argument
                kws.append(ast.keyword(arg=p, value=b[p]))
        for k, v in b.items():
            if k not in order:
                kws.append(ast.keyword(arg=k, value=v))
        return ast.Call(func=node.func, args=[], keywords=kws)


def canon(ctx, node, fi: FuncInfo) -> str:
    """Canonical source: resolvable calls in all-keyword form (parameter order, explicit defaults dropped)."""
    if node is None:
        return 'None'
    n = _CanonCalls(ctx, fi).visit(clone(node))
    return ast.unparse(alpha(n))


def alpha(node):
    """Bound variables of comprehensions and lambdas renamed to _b0, _b1, ... in order of binding (outermost first): two
    expressions that differ only in the names of their bound variables get the same text."""
    counter = [0]

    class A(ast.NodeTransformer):
        def __init__(self, env):
            self.env = env

        def visit_Name(self, n):
            if n.id in self.env:
                return ast.copy_location(ast.Name(id=self.env[n.id], ctx=n.ctx), n)
            return n

        def _comp(self, n):
            env = dict(self.env)
            gens = []
            for g in n.generators:
                it = A(env).visit(g.iter)
                for t in ast.walk(g.target):
                    if isinstance(t, ast.Name):
                        env[t.id] = f'_b{counter[0]}'
                        counter[0] += 1
                gens.append(ast.comprehension(target=A(env).visit(g.target), iter=it, ifs=[A(env).visit(c) for c in g.ifs], is_async=g.is_async))
            sub = A(env)
            if isinstance(n, ast.DictComp):
                return ast.copy_location(ast.DictComp(key=sub.visit(n.key), value=sub.visit(n.value), generators=gens), n)
            return ast.copy_location(type(n)(elt=sub.visit(n.elt), generators=gens), n)

        visit_ListComp = visit_SetComp = visit_GeneratorExp = visit_DictComp = _comp

        def visit_Lambda(self, n):
            a = n.args
            if a.vararg or a.kwarg or a.kwonlyargs or a.posonlyargs or a.defaults:
                return self.generic_visit(n)
            env = dict(self.env)
            new_args = []
            for x in a.args:
                env[x.arg] = f'_b{counter[0]}'
                counter[0] += 1
                new_args.append(ast.arg(arg=env[x.arg]))
            return ast.copy_location(ast.Lambda(args=ast.arguments(posonlyargs=[], args=new_args, kwonlyargs=[], kw_defaults=[], defaults=[]),
                                                body=A(env).visit(n.body)), n)
    return ast.fix_missing_locations(A({}).visit(clone(node)))


def same(ctx, fi: FuncInfo, node, *expected: str) -> bool:
    """Does `node` equal one of the expected expressions (given as source text) up to call-argument style?"""
    inl = symex.INLINER
    got = canon(ctx, inl.apply(node, fi) if inl is not None else node, fi)
    for e in expected:
        try:
            en = ast.parse(e, mode='eval').body
        except SyntaxError:
            continue
        if inl is not None:
            en = inl.apply(en, fi)
        if canon(ctx, en, fi) == got:
            return True
    return False


# ----------------------------------------------------------------------- callables given as values
def callable_body(ctx, node, fi: FuncInfo):
    """A callable passed as a value - a lambda, a bound method `self._m` / `cls._m`, or the name of a function (a local closure
    included) - whose body is ONE expression: -> ([parameter names], expression) or None."""
    if isinstance(node, ast.Lambda):
        a = node.args
        if a.vararg or a.kwarg or a.kwonlyargs:
            return None
        return [x.arg for x in a.posonlyargs + a.args], node.body
    target = None
    drop = 0
    if isinstance(node, ast.Attribute) and isinstance(node.value, ast.Name) and node.value.id in ('self', 'cls') and fi.cls is not None:
        target = ctx.prog.find_method(fi.cls, node.attr)
        if target is not None and target.kind in ('method', 'classmethod'):
            drop = 1
    elif isinstance(node, ast.Name):
        nested = ctx.prog.nested_functions(fi)
        if node.id in nested:
            target = nested[node.id]
        else:
            b = ctx.prog.resolve(fi.module, node.id)
            if b is not None and b.kind == 'def':
                target = b.value
    if target is None or symex.INLINER is None:
        return None
    e = symex.INLINER.single_expr(target)
    if e is None:
        return None
    return list(target.params[drop:]), e


def store_table(fi: FuncInfo, limit=4000):
    """{target text: [(path condition, value node)]} for every attribute / subscript store on every feasible path."""
    out = {}
    for sp in symex.func_sym_paths(fi, limit):
        cond = sp.condition()
        for e in sp.events:
            if e.kind == 'store' and isinstance(e.target, ast.AST):
                out.setdefault(src(e.target), []).append((cond, e.expr, sp))
    return out


def forced(fm, atom, value) -> bool:
    """Every valuation that satisfies `fm` gives `atom` the truth value `value`."""
    ats = G.atoms_of(fm)
    if atom not in ats:
        return False
    others = [a for a in ats if a != atom]
    if len(others) > 14:
        return False
    for bits in itertools.product([False, True], repeat=len(others)):
        v = dict(zip(others, bits))
        v[atom] = not value
        if G.evaluate(fm, v):
            return False
    return True


# ----------------------------------------------------------------------- what a list is built from
def items_of(expr):
    """Element-wise description of a list-valued expression:
    [('one', element node) | ('many', element node, iterable node, [conditions]) | ('copy', source node) | ('unknown', node)]"""
    if isinstance(expr, (ast.List, ast.Tuple)):
        out = []
        for e in expr.elts:
            if isinstance(e, ast.Starred):
                out.append(('copy', e.value))
            else:
                out.append(('one', e))
        return out
    if isinstance(expr, (ast.ListComp, ast.GeneratorExp)) and len(expr.generators) == 1:
        g = expr.generators[0]
        return [('many', expr.elt, g.iter, list(g.ifs))]
    if isinstance(expr, ast.BinOp) and isinstance(expr.op, ast.Add):
        return items_of(expr.left) + items_of(expr.right)
    if isinstance(expr, ast.BinOp) and isinstance(expr.op, ast.Mult):
        lst, n = (expr.left, expr.right) if isinstance(expr.left, ast.List) else (expr.right, expr.left)
        if isinstance(lst, ast.List) and len(lst.elts) == 1:
            return [('many', lst.elts[0], ast.Call(func=ast.Name(id='range', ctx=ast.Load()), args=[n], keywords=[]), [])]
    if isinstance(expr, ast.Call) and isinstance(expr.func, ast.Name) and expr.func.id in ('list', 'tuple') and len(expr.args) == 1:
        inner = items_of(expr.args[0])
        if all(k[0] != 'unknown' for k in inner):
            return inner
        return [('copy', expr.args[0])]
    if isinstance(expr, ast.Call) and isinstance(expr.func, ast.Name) and expr.func.id == 'list' and not expr.args:
        return []
    return [('unknown', expr)]


def list_content(fi: FuncInfo, receiver: str, limit=4000):
    """[(path condition, items, SymPath)]: what the list named `receiver` (a local name or `self.attr`) holds at the end of every
    feasible path, from its (re)binding and the append / extend / insert / += that follow.  Items as in items_of; a path on
    which the receiver is never bound starts with ('copy', <receiver>)."""
    return [(sp.condition(), path_items(sp, receiver), sp) for sp in symex.func_sym_paths(fi, limit)]


def path_items(sp, receiver: str, upto=None):
    """What the list named `receiver` holds at the end of one path (see list_content); `upto`: only the first events."""
    items = [('copy', ast.parse(receiver, mode='eval').body)]
    in_loop = 0
    for i_ev, e in enumerate(sp.events if upto is None else sp.events[:upto]):
        n = e.node
        if isinstance(n, (ast.Assign, ast.AnnAssign)) and e.kind in ('assign', 'store'):
            tg = n.targets if isinstance(n, ast.Assign) else [n.target]
            if any(src(t) == receiver for t in tg):
                items = items_of(e.expr)
                # two-phase construction `xs = [F(v) for v in ys]` over a local list `ys` filled piece by piece on this path:
                # the pieces of ys, each mapped through F
                if len(items) == 1 and items[0][0] == 'many' and not items[0][3] \
                        and isinstance(n.value, (ast.ListComp, ast.GeneratorExp)) and len(n.value.generators) == 1 \
                        and isinstance(n.value.generators[0].target, ast.Name) and isinstance(n.value.generators[0].iter, ast.Name) \
                        and not n.value.generators[0].ifs:
                    var = n.value.generators[0].target.id
                    inner = path_items(sp, n.value.generators[0].iter.id, upto=i_ev)
                    if inner and all(k[0] in ('one', 'many') for k in inner):
                        from .guards import substitute
                        mapped = []
                        for k in inner:
                            el = substitute(clone(items[0][1]), {var: k[1]}, recursive=False)
                            mapped.append(('one', el) if k[0] == 'one' else ('many', el, k[2], k[3]))
                        items = mapped
        elif isinstance(n, ast.AugAssign) and src(n.target) == receiver and isinstance(n.op, ast.Add):
            v = e.expr.right if isinstance(e.expr, ast.BinOp) and e.kind == 'assign' else e.expr
            items = items + items_of(v)
        elif isinstance(n, ast.Expr) and isinstance(n.value, ast.Call) and isinstance(n.value.func, ast.Attribute) \
                and src(n.value.func.value) == receiver and isinstance(e.expr, ast.Call):
            m = n.value.func.attr
            if m == 'append' and len(e.expr.args) == 1:
                items = items + [('one', e.expr.args[0])]
            elif m == 'extend' and len(e.expr.args) == 1:
                items = items + items_of(e.expr.args[0])
            elif m == 'insert' and len(e.expr.args) == 2 and isinstance(e.expr.args[0], ast.Constant) and e.expr.args[0].value == 0:
                items = [('one', e.expr.args[1])] + items
            elif m in ('clear',):
                items = []
            elif m in ('pop', 'remove', 'sort', 'reverse', 'insert'):
                items = items + [('unknown', e.expr)]
    return items


def joined_text(sp, node):
    """`''.join(parts)` where `parts` is a local list filled on the path `sp`, piece by piece: the concatenation `a + b + ...`
    of the pieces (so that text_parts sees through it); any other node unchanged."""
    if isinstance(node, ast.Call) and isinstance(node.func, ast.Attribute) and node.func.attr == 'join' and len(node.args) == 1 \
            and isinstance(node.func.value, ast.Constant) and node.func.value.value == '':
        arg = node.args[0]
        items = path_items(sp, src(arg)) if isinstance(arg, ast.Name) else items_of(arg)
        if items and all(k[0] == 'one' for k in items):
            out = clone(items[0][1])
            for k in items[1:]:
                out = ast.BinOp(left=out, op=ast.Add(), right=clone(k[1]))
            return out
    return node


RAISES = ('<raises>',)


def eval_function(ctx, fi: FuncInfo, env: dict):
    """Interpret a small side-effect-free function on concrete arguments with the checker's own evaluator (no repository code
    runs): the feasible path whose tests hold is followed and its return value evaluated.  -> (True, value) | (False, None)"""
    from .consteval import NotConst
    for sp in symex.func_sym_paths(fi, 400):
        if any(e.kind == 'except' for e in sp.events):
            continue        # exception handlers are not interpreted
        try:
            if not all(bool(ctx.ce.eval(c, fi.module, fi.cls, dict(env))) == t for c, t in sp.conds):
                continue
            if sp.end == 'fall':
                return True, None
            if sp.end == 'raise':
                return True, RAISES
            if sp.end != 'return':
                return False, None
            return True, ctx.ce.eval(sp.value, fi.module, fi.cls, dict(env))
        except (NotConst, AnalysisError, TypeError, KeyError, ValueError, IndexError):
            return False, None
    return False, None


def open_args(call: ast.Call):
    """(file expression, mode string or None when not a literal, {other keyword: value}) of a call of the builtin open()."""
    kw = {k.arg: k.value for k in call.keywords if k.arg}
    file = call.args[0] if call.args else kw.get('file')
    mode = call.args[1] if len(call.args) > 1 else kw.get('mode')
    if mode is None:
        m = 'r'
    elif isinstance(mode, ast.Constant) and isinstance(mode.value, str):
        m = mode.value
    else:
        m = None
    rest = {k: v for k, v in kw.items() if k not in ('file', 'mode')}
    names = ['file', 'mode', 'buffering', 'encoding', 'errors', 'newline', 'closefd', 'opener']
    for i, a in enumerate(call.args[2:], start=2):
        if i < len(names):
            rest[names[i]] = a
    return file, m, rest


# ----------------------------------------------------------------------- dispatch by specialisation
OTHER = '\x00<any other value>'


def _key_node(ctx, fi, key):
    if key is Ellipsis:
        return ast.Constant(value=OTHER)
    if isinstance(key, str) and key.count('.') == 1 and key.replace('.', '').replace('_', '').isalnum() and not key.startswith('*'):
        n = ast.parse(key, mode='eval').body
        ok, v = ctx.ce.try_eval(n, fi.module, fi.cls, {})
        if ok and isinstance(v, EnumMember):
            return n
    return ast.Constant(value=key)


class _Specialise(ast.NodeTransformer):
    """subject := a constant; look-ups in constant dicts with a constant key are replaced by the entry."""

    def __init__(self, ctx, fi, subject, knode):
        self.ctx, self.fi, self.subject, self.knode = ctx, fi, subject, knode
        self.missing = False

    def generic_visit(self, node):
        if isinstance(node, (ast.Name, ast.Attribute)) and isinstance(getattr(node, 'ctx', None), ast.Load) and ast.unparse(node) == self.subject:
            return clone(self.knode)
        return super().generic_visit(node)

    def visit_Name(self, node):
        return self.generic_visit(node)

    def visit_Attribute(self, node):
        return self.generic_visit(node)

    def _table(self, expr):
        d = expr
        if isinstance(expr, (ast.Name, ast.Attribute)):
            r = self.ctx.prog.resolve_expr(self.fi.module, expr, self.fi.cls)
            if not (r and r[0] == 'assign'):
                return None
            d = r[1]
        return d if isinstance(d, ast.Dict) and all(k is not None for k in d.keys) else None

    def _entry(self, table, knode):
        ok, kv = self.ctx.ce.try_eval(knode, self.fi.module, self.fi.cls, {})
        if not ok:
            return None, False
        for k, v in zip(table.keys, table.values):
            ok2, k2 = self.ctx.ce.try_eval(k, self.fi.module, self.fi.cls, {})
            if ok2 and k2 == kv:
                return clone(v), True
        return None, True

    def visit_Call(self, node):
        node = super().generic_visit(node)
        f = node.func
        if isinstance(f, ast.Attribute) and f.attr == 'get' and 1 <= len(node.args) <= 2 and not node.keywords:
            t = self._table(f.value)
            if t is not None:
                v, known = self._entry(t, node.args[0])
                if known:
                    return v if v is not None else (node.args[1] if len(node.args) == 2 else ast.Constant(value=None))
        return node

    def visit_IfExp(self, node):
        node = super().generic_visit(node)
        ok, v = self.ctx.ce.try_eval(node.test, self.fi.module, self.fi.cls, dict(getattr(self, 'env', {}) or {}))
        if ok:
            return node.body if v else node.orelse
        return node

    def visit_Subscript(self, node):
        node = super().generic_visit(node)
        if isinstance(node.ctx, ast.Load):
            t = self._table(node.value)
            if t is not None:
                v, known = self._entry(t, node.slice)
                if known and v is not None:
                    return v
                if known:
                    self.missing = True
        return node


def dispatch_by_specialisation(ctx, fi: FuncInfo, subject: str, sps, extra_values=(), allow_atoms=()):
    """{constant -> (end, value node, SymPath)}: for every candidate value of the subject the function is specialised (subject
    replaced by the constant, look-ups in constant tables resolved) and the path whose tests the evaluator decides to hold is
    the outcome.  Candidates: extra_values, the constants the subject is compared with, the keys of the tables it indexes."""
    cands = list(extra_values)
    for sp in sps:
        for node in [c for c, _ in sp.conds] + ([sp.value] if sp.value is not None else []):
            for n in ast.walk(node):
                if isinstance(n, ast.Compare) and len(n.ops) == 1 and isinstance(n.ops[0], (ast.Eq, ast.NotEq)):
                    for a, b in ((n.left, n.comparators[0]), (n.comparators[0], n.left)):
                        if ast.unparse(a) == subject:
                            ok, v = ctx.ce.try_eval(b, fi.module, fi.cls, {})
                            if ok:
                                k = f'{v.cls.rpartition(".")[2]}.{v.name}' if isinstance(v, EnumMember) else v
                                if k not in cands and isinstance(k, (str, int)):
                                    cands.append(k)
    table = {}
    for key in cands + [Ellipsis]:
        knode = _key_node(ctx, fi, key)
        taken = []
        for sp in sps:
            feasible = True
            free_ok = True
            missing = False
            for node, truth in sp.conds:
                sp_ = _Specialise(ctx, fi, subject, knode)
                n2 = sp_.visit(clone(node))
                missing = missing or sp_.missing
                ok, v = ctx.ce.try_eval(n2, fi.module, fi.cls, {})
                if ok:
                    if bool(v) != truth:
                        feasible = False
                        break
                elif ast.unparse(node) in allow_atoms or any(ast.unparse(node) == a or G.show(G._formula(node)) == a for a in allow_atoms):
                    continue
                else:
                    d = symex._decide(n2)
                    if d is not None:
                        if d != truth:
                            feasible = False
                            break
                        continue
                    free_ok = False
                    why = ast.unparse(n2)
                    break
            if not feasible:
                continue
            if not free_ok:
                raise AnalysisError(f'{fi.loc} {fi.qualname}: for {subject} == {key!r} the test `{why[:80]}` cannot be decided')
            taken.append((sp, missing))

        def _shape(sp_):
            v_ = sp_.value
            return (sp_.end, ast.unparse(v_.func) if isinstance(v_, ast.Call) else (ast.unparse(v_) if v_ is not None else None))
        if not taken:
            raise AnalysisError(f'{fi.loc} {fi.qualname}: no path for {subject} == {key!r}')
        if any(_shape(t[0]) != _shape(taken[0][0]) for t in taken):
            raise AnalysisError(f'{fi.loc} {fi.qualname}: {len(taken)} different outcomes for {subject} == {key!r}')
        sp, missing = taken[0]
        if sp.value is not None:
            spc = _Specialise(ctx, fi, subject, knode)
            val = spc.visit(clone(sp.value))
            missing = missing or spc.missing
        else:
            val = None
        table[key] = ('raise', None, sp) if missing and sp.end == 'return' else (sp.end, val, sp)
    return table


def interpret(ctx, fi: FuncInfo, env: dict, limit=2000):
    """Follow the path of a function whose tests the checker's evaluator decides for the concrete arguments `env`
    -> (end, value node with look-ups in constant tables resolved, SymPath); the value itself is NOT evaluated (it may build
    objects).  AnalysisError when a test cannot be decided."""
    from .consteval import NotConst
    for sp in symex.func_sym_paths(fi, limit):
        if any(e.kind == 'except' for e in sp.events):
            continue
        taken = True
        for c, t in sp.conds:
            try:
                v = ctx.ce.eval(c, fi.module, fi.cls, dict(env))
            except (NotConst, TypeError, KeyError, ValueError, IndexError) as e:
                folded = _FoldLookups(ctx, fi, env).visit(clone(c))
                d = symex._decide(folded)
                if d is None:
                    try:
                        v = ctx.ce.eval(folded, fi.module, fi.cls, dict(env))
                        d = bool(v)
                    except (NotConst, TypeError, KeyError, ValueError, IndexError):
                        raise AnalysisError(f'{fi.loc}: `{src(c)[:80]}` cannot be interpreted for {env}: {e}')
                v = d
            if bool(v) != t:
                taken = False
                break
        if not taken:
            continue
        val = _FoldLookups(ctx, fi, env).visit(clone(sp.value)) if sp.value is not None else None
        return sp.end, val, sp
    raise AnalysisError(f'{fi.loc}: no path of {fi.qualname} is taken for {env}')


class _FoldLookups(_Specialise):
    """Look-ups in constant dicts whose key the evaluator computes from the concrete arguments are replaced by the entry."""

    def __init__(self, ctx, fi, env):
        super().__init__(ctx, fi, '\x00', ast.Constant(value=None))
        self.env = env

    def _entry(self, table, knode):
        ok, kv = self.ctx.ce.try_eval(knode, self.fi.module, self.fi.cls, dict(self.env))
        if not ok:
            return None, False
        for k, v in zip(table.keys, table.values):
            ok2, k2 = self.ctx.ce.try_eval(k, self.fi.module, self.fi.cls, {})
            if ok2 and k2 == kv:
                return clone(v), True
        return None, True


def expand_call(ctx, call: ast.Call, fi: FuncInfo):
    """A call of a kernpy function whose body is ONE expression (an anchor included) replaced by that expression with the
    arguments substituted; None when the callee is not resolved or not of that form."""
    if symex.INLINER is None or not isinstance(call, ast.Call):
        return None
    try:
        t, bound = _static_callee(ctx, call, fi)
    except AnalysisError:
        return None
    if t is None or t.module.generated or t.name == '__init__':
        return None
    e = symex.INLINER.single_expr(t)
    if e is None:
        return None
    try:
        b = bind_args(call, t, bound and t.kind in ('method', 'classmethod'))
    except AnalysisError:
        return None
    if '**' in b:
        return None
    mapping = dict(b)
    for p in t.all_params:
        if p not in mapping:
            d = param_default(t, p)
            if d is not None:
                mapping[p] = d
    return G.substitute(e, mapping, recursive=False)


def text_parts(node):
    """The parts of a text built by an f-string and / or `+`: [('lit', str) | ('expr', source text)], adjacent literals merged.
    `f'**{a}{b}'`, `'**' + a + b` and `'**' + f'{a}{b}'` have the same parts."""
    out = []

    def lit(t):
        if not t:
            return
        if out and out[-1][0] == 'lit':
            out[-1] = ('lit', out[-1][1] + t)
        else:
            out.append(('lit', t))

    def rec(n):
        if isinstance(n, ast.JoinedStr):
            for v in n.values:
                if isinstance(v, ast.Constant):
                    lit(str(v.value))
                elif isinstance(v, ast.FormattedValue) and v.conversion == -1 and v.format_spec is None:
                    rec(v.value)
                else:
                    out.append(('expr', src(v)))
        elif isinstance(n, ast.BinOp) and isinstance(n.op, ast.Add):
            rec(n.left)
            rec(n.right)
        elif isinstance(n, ast.Constant) and isinstance(n.value, str):
            lit(n.value)
        elif isinstance(n, ast.Call) and isinstance(n.func, ast.Name) and n.func.id == 'str' and len(n.args) == 1 and not n.keywords:
            rec(n.args[0])
        elif isinstance(n, ast.Call) and isinstance(n.func, ast.Attribute) and n.func.attr == 'format' \
                and isinstance(n.func.value, ast.Constant) and isinstance(n.func.value.value, str) \
                and not any(isinstance(a, ast.Starred) for a in n.args) and all(k.arg for k in n.keywords) and _format_fields(n) is not None:
            for text, arg in _format_fields(n):
                lit(text)
                if arg is not None:
                    rec(arg)
        elif isinstance(n, ast.BinOp) and isinstance(n.op, ast.Mod) and isinstance(n.left, ast.Constant) and isinstance(n.left.value, str) \
                and n.left.value.count('%') == n.left.value.count('%s') and '%' in n.left.value:
            args = list(n.right.elts) if isinstance(n.right, ast.Tuple) else [n.right]
            pieces = n.left.value.split('%s')
            if len(args) == len(pieces) - 1:
                for k, t in enumerate(pieces):
                    lit(t)
                    if k < len(args):
                        rec(args[k])
            else:
                out.append(('expr', src(n)))
        else:
            out.append(('expr', src(n)))
    rec(node)
    return out


def _format_fields(call):
    """[(literal text, argument node | None)] of `'...{}...{name}'.format(args)`: plain fields only (no conversion, no format
    spec, no attribute / index look-ups); None when the template uses anything else."""
    import string
    out = []
    auto = 0
    kw = {k.arg: k.value for k in call.keywords}
    try:
        parsed = list(string.Formatter().parse(call.func.value.value))
    except ValueError:
        return None
    for text, field, spec, conv in parsed:
        if field is None:
            out.append((text, None))
            continue
        if spec or conv:
            return None
        if field == '':
            if auto is None or auto >= len(call.args):
                return None
            arg = call.args[auto]
            auto += 1
        elif field.isdigit():
            if auto:
                return None
            auto = None
            if int(field) >= len(call.args):
                return None
            arg = call.args[int(field)]
        elif field in kw:
            arg = kw[field]
        else:
            return None
        out.append((text, arg))
    return out


def _through_glue(ctx, v, fi, depth):
    """A value that is a call of a helper the pinned tree does not know (glue): the values the helper returns, arguments
    substituted; any other value as it is."""
    if depth > 3 or not isinstance(v, ast.Call):
        return [v]
    try:
        t, bound = _static_callee(ctx, v, fi)
    except AnalysisError:
        return [v]
    if t is None or t.name == '__init__' or t.module.generated or ctx.prog.is_anchor(t):
        return [v]
    try:
        b_ = bind_args(v, t, bound and t.kind in ('method', 'classmethod'))
    except AnalysisError:
        return [v]
    out = []
    for _, w, _sp in symex.returns(t):
        w = G.substitute(w, dict(b_), recursive=False)
        out.extend(_through_glue(ctx, w, fi, depth + 1))
    return out or [v]


# ----------------------------------------------------------------------- what a callable value computes
def callable_results(ctx, node, fi: FuncInfo, env=None, depth=0):
    """What a callable VALUE returns when called with one more argument: [(parameter name, returned expression)] for every
    returning path.  Followed: a nested function / a lambda (closure variables replaced by the values `env` gives them in the
    enclosing function), a function or bound method of the repository, `functools.partial(f, a, ...)` (leading parameters bound)
    and a factory call whose result is one of these (the factory's parameters replaced by the arguments of the call).
    None when the value is none of these."""
    env = dict(env or {})
    if depth > 4:
        return None
    if depth == 0:
        res = callable_results(ctx, node, fi, env, 1)
        if res is None:
            return None
        out = []
        for q, v in res:
            out.extend((q, w) for w in _through_glue(ctx, v, fi, 0))
        return out

    def finish(target, bound_map, skip):
        free = [p for p in target.params if p not in bound_map and p not in skip]
        if len(free) != 1:
            return None
        q = free[0]
        own = {n.id for n in ast.walk(target.node) if isinstance(n, ast.Name) and isinstance(n.ctx, ast.Store)} | set(target.params)
        closure = {k: v for k, v in env.items() if k not in own}
        out = []
        if isinstance(target.node, ast.Lambda):
            vals = [target.node.body]
        else:
            vals = [v for _, v, _ in symex.returns(target) if v is not None]
        for v in vals:
            v = G.substitute(v, dict(bound_map), recursive=False)
            v = G.substitute(v, closure, recursive=False) if closure else v
            out.append((q, v))
        return out

    if isinstance(node, ast.Lambda):
        a = node.args
        if a.vararg or a.kwarg or a.kwonlyargs or len(a.args) != 1:
            return None
        v = G.substitute(node.body, {k: w for k, w in env.items() if k != a.args[0].arg}, recursive=False) if env else node.body
        return [(a.args[0].arg, v)]
    if isinstance(node, ast.Name):
        target = ctx.prog.nested_functions(fi).get(node.id)
        if target is not None:
            return finish(target, {}, ())
        if node.id in env and not isinstance(env[node.id], ast.Name):
            return callable_results(ctx, env[node.id], fi, {k: v for k, v in env.items() if k != node.id}, depth + 1)
    if isinstance(node, (ast.Name, ast.Attribute)):
        fake = ast.Call(func=node, args=[], keywords=[])
        try:
            t, bound = _static_callee(ctx, fake, fi)
        except AnalysisError:
            t, bound = None, False
        if t is not None and t.name != '__init__' and not t.module.generated:
            skip = t.params[:1] if (bound and t.kind in ('method', 'classmethod')) else ()
            return finish(t, {}, skip)
        return None
    if isinstance(node, ast.Call):
        r = ctx.prog.resolve_expr(fi.module, node.func, fi.cls) if isinstance(node.func, (ast.Name, ast.Attribute)) else None
        if r and r[0] == 'external' and r[1] in ('functools.partial',) and node.args:
            inner = node.args[0]
            fake = ast.Call(func=inner, args=[], keywords=[])
            t = None
            if isinstance(inner, ast.Name) and inner.id in ctx.prog.nested_functions(fi):
                t, skip = ctx.prog.nested_functions(fi)[inner.id], ()
            elif isinstance(inner, (ast.Name, ast.Attribute)):
                try:
                    t, bound = _static_callee(ctx, fake, fi)
                except AnalysisError:
                    t, bound = None, False
                skip = t.params[:1] if (t is not None and bound and t.kind in ('method', 'classmethod')) else ()
            if t is None or t.name == '__init__':
                return None
            params = [p for p in t.params if p not in skip]
            if len(node.args) - 1 > len(params) or any(k.arg is None or k.arg not in params for k in node.keywords):
                return None
            bm = dict(zip(params, node.args[1:]))
            bm.update({k.arg: k.value for k in node.keywords})
            return finish(t, bm, skip)
        # an object of a repository class with __call__ (a callback object): what __call__ returns, with every `self.attr` replaced by
        # the constructor argument that __init__ stores there
        try:
            cc = constructed_class(ctx, node, fi)
        except AnalysisError:
            cc = None
        if cc is not None and not cc.module.generated:
            call_m = ctx.prog.find_method(cc, '__call__')
            init_m = ctx.prog.find_method(cc, '__init__')
            if call_m is not None and len(call_m.params) == 2:
                attrs = {}
                if init_m is not None:
                    try:
                        b0 = bind_args(node, init_m, True)
                    except AnalysisError:
                        return None
                    body0 = [s_ for s_ in init_m.node.body if not (isinstance(s_, ast.Expr) and isinstance(s_.value, ast.Constant))]
                    for s_ in body0:
                        if isinstance(s_, ast.Assign) and len(s_.targets) == 1 and isinstance(s_.targets[0], ast.Attribute) \
                                and is_name(s_.targets[0].value, init_m.params[0]) and isinstance(s_.value, ast.Name) and s_.value.id in b0:
                            attrs[s_.targets[0].attr] = b0[s_.value.id]
                        else:
                            return None      # a constructor that does more than store its arguments: not followed
                self_p, q = call_m.params

                class _SelfAttr(ast.NodeTransformer):
                    def visit_Attribute(self, a_):
                        if isinstance(a_.value, ast.Name) and a_.value.id == self_p and a_.attr in attrs:
                            return clone(attrs[a_.attr])
                        return self.generic_visit(a_)
                out = []
                for _, v, _sp in symex.returns(call_m):
                    if v is None:
                        continue
                    # every use of the callback object itself must be a read of an attribute the constructor stored
                    n_self = sum(1 for x in ast.walk(v) if isinstance(x, ast.Name) and x.id == self_p)
                    n_attr = sum(1 for x in ast.walk(v) if isinstance(x, ast.Attribute) and isinstance(x.value, ast.Name) and x.value.id == self_p
                                 and x.attr in attrs)
                    if n_self != n_attr:
                        return None
                    v2 = _SelfAttr().visit(clone(v))
                    out.append((q, G.substitute(v2, {k: w for k, w in env.items() if k != q}, recursive=False) if env else v2))
                return out or None
        # a factory: the callable it returns, with the factory's parameters replaced by the arguments
        try:
            t, bound = _static_callee(ctx, node, fi)
        except AnalysisError:
            t, bound = None, False
        if t is None or t.name == '__init__' or t.module.generated:
            return None
        try:
            b_ = bind_args(node, t, bound and t.kind in ('method', 'classmethod'))
        except AnalysisError:
            return None
        out = []
        for _, v, sp in symex.returns(t):
            inner_env = {k: w for k, w in sp.env.items() if isinstance(w, ast.AST)} if hasattr(sp, 'env') else {}
            res = callable_results(ctx, v, t, inner_env, depth + 1)
            if res is None:
                return None
            for q, val in res:
                out.append((q, G.substitute(val, {k: w for k, w in b_.items() if k != q}, recursive=False)))
        return out
    return None


def effective_returns(ctx, cls: ClassInfo, name: str, depth=0):
    """The values the method `name` returns for objects of class `cls`: the method found along the MRO (an inherited one when
    the class does not define it), with `return super().name(...)` followed into the next class.  [(SymPath-or-None, value)]"""
    f = ctx.prog.find_method(cls, name)
    if f is None or depth > 6:
        raise AnalysisError(f'{cls.qualname} has no method {name}')
    out = []
    for _, v, sp in symex.returns(f):
        if isinstance(v, ast.Call) and isinstance(v.func, ast.Attribute) and v.func.attr == name and isinstance(v.func.value, ast.Call) \
                and isinstance(v.func.value.func, ast.Name) and v.func.value.func.id == 'super' and not v.func.value.args:
            mro = ctx.prog.mro(f.cls)
            nxt = None
            for c in mro[mro.index(f.cls) + 1:]:
                if name in c.methods:
                    nxt = c
                    break
            if nxt is None:
                raise AnalysisError(f'{f.loc}: super().{name} is not resolved')
            out.extend(effective_returns(ctx, nxt, name, depth + 1))
        else:
            out.append((sp, v))
    return out


def class_returns(ctx, cls: ClassInfo, name: str):
    """(method, [(condition, value, SymPath)]): what the method `name` returns for objects of EXACTLY class `cls` - the method found
    along the MRO, with the hooks it calls on self resolved in the class (self.h(...) -> the return value of the h that `cls`
    sees, when that h is one expression) and the class-level constants it reads through self / cls replaced by the values `cls`
    gives them.  A template method with per-class hooks and tables is seen, per class, as the plain method it stands for."""
    f = ctx.prog.find_method(cls, name)
    if f is None:
        raise AnalysisError(f'{cls.qualname} has no method {name}')

    class Fold(ast.NodeTransformer):
        def __init__(self, depth=0):
            self.depth = depth

        def visit_Call(self, n):
            self.generic_visit(n)
            fn = n.func
            if isinstance(fn, ast.Attribute) and isinstance(fn.value, ast.Name) and fn.value.id in ('self', 'cls') and self.depth < 4:
                h = ctx.prog.find_method(cls, fn.attr)
                if h is not None and h is not f and not h.is_abstract and not h.module.generated:
                    rs = [v for _, v, sp_ in symex.returns(h) if sp_.end == 'return']
                    if len(rs) == 1 and len(symex.returns(h)) == 1:
                        try:
                            b_ = bind_args(n, h, h.kind in ('method', 'classmethod'))
                        except AnalysisError:
                            return n
                        v = G.substitute(rs[0], {k: w for k, w in b_.items() if k not in ('self', 'cls')}, recursive=False)
                        return Fold(self.depth + 1).visit(v)
            return n

        def visit_Attribute(self, n):
            self.generic_visit(n)
            if isinstance(n.value, ast.Name) and n.value.id in ('self', 'cls') and isinstance(n.ctx, ast.Load) \
                    and ctx.prog.find_class_attr(cls, n.attr) is not None:
                ok, v = ctx.ce.try_eval(ast.Attribute(value=ast.Name(id='cls', ctx=ast.Load()), attr=n.attr, ctx=ast.Load()), cls.module, cls, {})
                if ok and isinstance(v, (str, int, tuple, list)) and not isinstance(v, bool):
                    try:
                        return ast.parse(repr(v), mode='eval').body
                    except SyntaxError:
                        return n
            return n

        def visit_Subscript(self, n):
            self.generic_visit(n)
            if isinstance(n.value, (ast.Tuple, ast.List)) and isinstance(n.slice, ast.Constant) and isinstance(n.slice.value, int) \
                    and -len(n.value.elts) <= n.slice.value < len(n.value.elts):
                return n.value.elts[n.slice.value]
            return n
    if f.cls is not cls:
        # an inherited (template) method: a copy of it specialised for this class - constants and hooks folded in every statement,
        # loops over the folded tables unrolled - is executed symbolically instead of the shared body
        import copy as _copy
        from .model import FuncInfo as _FI
        from . import normalize as _nz
        node = _copy.deepcopy(f.node)
        node.body = [ast.fix_missing_locations(Fold().visit(st)) for st in node.body]
        nzr = ctx.prog.normalizer
        if nzr is not None:
            try:
                body = nzr.unroll_block(list(node.body), f)
                body = _nz.canon_block(body)
                node.body = body or node.body
            except Exception:
                pass
        ast.fix_missing_locations(node)
        spec = _FI(f.module, node, cls)
        out = []
        for c_, v_, sp_ in symex.returns(spec):
            out.append((c_, ast.fix_missing_locations(Fold().visit(clone(v_))) if v_ is not None else v_, sp_))
        return spec, out
    out = []
    for c_, v_, sp_ in symex.returns(f):
        out.append((c_, ast.fix_missing_locations(Fold().visit(clone(v_))) if v_ is not None else v_, sp_))
    return f, out

