#!/usr/bin/env python3
"""Print what the checks say about one corpus patch (in memory). usage: show.py <seeded-or-benign-id | path/to/patch.diff> [C01,C02|all]"""
import os, sys
VERIF = os.path.join(os.path.dirname(os.path.abspath(__file__)), '..')
sys.path.insert(0, VERIF)
sys.path.insert(0, os.path.dirname(os.path.abspath(__file__)))
from matrix import overlay_of, ALL
from kpsa.cli import run_property
from kpsa.errors import AnalysisError

def main():
    pid = sys.argv[1]
    props = ALL if len(sys.argv) < 3 or sys.argv[2] == 'all' else sys.argv[2].split(',')
    for d in (pid, os.path.join(VERIF, 'seeded', pid, 'patch.diff'), os.path.join(VERIF, 'corpus', 'benign', pid, 'patch.diff')):
        if os.path.isfile(d):
            patch = d
            break
    else:
        print('no such patch'); return 2
    ov = overlay_of(patch)
    for p in props:
        try:
            ctx = run_property(p, 'quick', '/repo', overlay=ov)
        except AnalysisError as e:
            print(p, 'exit2', str(e)[:400]); continue
        except Exception as e:
            import traceback; traceback.print_exc()
            print(p, 'exit2 internal', type(e).__name__, e); continue
        if ctx.violations:
            print(p, 'exit1')
            for v in ctx.violations:
                print(f'   {v.rule} [{v.construct}] {v.function.rpartition(".")[2]}: {v.fact[:300]}')
        else:
            errs = getattr(ctx, 'analysis_errors', None)
            print(p, 'exit0' if not errs else f'exit2 {errs}')
main()
