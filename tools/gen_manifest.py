#!/usr/bin/env python3
"""Regenerates /verif/MANIFEST.json from the table below (run after adding or removing a check)."""
import json, os, sys
HERE = os.path.dirname(os.path.dirname(os.path.abspath(__file__)))
sys.path.insert(0, HERE)
from kpsa.registry import CHECKS, NOT_APPLICABLE  # noqa

checks = []
for pid in sorted(CHECKS):
    c = CHECKS[pid]
    checks.append({
        'property_id': pid,
        'engine': 'kpsa',
        'quick_cmd': f'./check {pid} --tier quick',
        'thorough_cmd': f'./check {pid} --tier thorough',
        'evidence_file': f'/verif/evidence/{pid}.json',
        'replay_cmd_template': f'./check {pid} --replay {{path}}',
        'level_claimed': {'category': c['category'], 'text': c['text'], 'design_ref': f'DESIGN.md section 3, {pid}'},
        'level_note': c['note'],
        'technique': c['technique'],
    })
props = [json.loads(l)['id'] for l in open(os.path.join(HERE, 'properties.jsonl'))]
na = []
for pid in props:
    if pid not in CHECKS:
        na.append({'property_id': pid, 'reason': NOT_APPLICABLE.get(pid, 'static check not built yet in this round (see DESIGN.md section 7); nothing is claimed')})
manifest = {
    'version': 1,
    'setup_cmd': 'sh ./setup.sh',
    'hooks': {
        'guard': 'KERNPY_VERIF',
        'enable': 'not needed: the checks are static (they parse /repo, nothing in kernpy is executed or instrumented); no hook commit exists',
        'baseline_off_cmd': 'cd /repo && /venv/bin/python -m pytest -ra -q -p no:cacheprovider --timeout=900 --continue-on-collection-errors',
        'source_commits': [],
        'add_only': True,
    },
    'engines': [{'name': 'kpsa', 'path': '/verif/kpsa', 'serves_properties': sorted(CHECKS),
                 'kind_free_text': 'repository-specific static analysis over the Python AST (stdlib ast only): constant evaluation, '
                                   'path enumeration with symbolic substitution, guard truth tables, affine normal forms, '
                                   'interprocedural effect summaries, ANTLR grammar model, sibling cross-checks'}],
    'checks': checks,
    'not_applicable': na,
    'notes': 'Technique family: static analysis only. Every verdict is computed from the source text of /repo on every run; '
             'exit 2 + ANALYSIS-ERROR means the analysis could not be carried out (never a verdict). Known findings are in '
             '/verif/known_findings.json. The thorough tier adds whole-program scans and checker self-validation on in-memory '
             'variants of the current tree.',
}
with open(os.path.join(HERE, 'MANIFEST.json'), 'w') as f:
    json.dump(manifest, f, indent=1)
    f.write('\n')
print(f'{len(checks)} checks, {len(na)} not applicable')
