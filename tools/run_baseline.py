#!/usr/bin/env python3
"""Run the pinned baseline suite in a tree (default /repo) and compare per test against BASELINE.json stable_pass.
usage: run_baseline.py [tree]   (exit 0 = all 276 stable tests pass)"""
import json, os, subprocess, sys, tempfile
import xml.etree.ElementTree as ET
tree = sys.argv[1] if len(sys.argv) > 1 else '/repo'
base = json.load(open('/root/.vp/BASELINE.json'))
fd, out = tempfile.mkstemp(suffix='.xml'); os.close(fd)
cmd = ['/venv/bin/python', '-m', 'pytest', '-q', '-p', 'no:cacheprovider', '--timeout=900',
       '--continue-on-collection-errors', f'--junitxml={out}']
subprocess.run(cmd, cwd=tree, stdout=subprocess.DEVNULL, stderr=subprocess.DEVNULL)
passed = set()
for tc in ET.parse(out).getroot().iter('testcase'):
    if not any(c.tag in ('failure', 'error', 'skipped') for c in tc):
        passed.add(f"{tc.get('classname')}::{tc.get('name')}")
os.unlink(out)
missing = [t for t in base['stable_pass'] if t not in passed]
print(f'stable tests passing: {len(base["stable_pass"]) - len(missing)}/{len(base["stable_pass"])}; total passing {len(passed)}')
for t in missing[:20]:
    print('  FAILS:', t)
sys.exit(1 if missing else 0)
