#!/usr/bin/env python3
"""Re-run the twenty quick checks on every kept seeded change (scratch worktree /tmp/wt/eval, never /repo) and refresh the
detection fields of seeded/<id>/meta.json; prints the detection matrix."""
import json, os, subprocess, sys, glob
VERIF = os.path.dirname(os.path.dirname(os.path.abspath(__file__)))
rows = []
only = sys.argv[1:]
for d in sorted(glob.glob(os.path.join(VERIF, 'seeded', '*'))):
    name = os.path.basename(d)
    import re as _re
    if _re.search(r'-[4-9]$', name):
        continue      # round 2: meta.json keeps the FIRST-CONTACT result (see DESIGN 11.1); current results: tools/matrix.py
    if only and not any(name.startswith(o) for o in only):
        continue
    meta = json.load(open(os.path.join(d, 'meta.json')))
    r = subprocess.run([sys.executable, os.path.join(VERIF, 'tools/eval_patch.py'), os.path.join(d, 'patch.diff')], capture_output=True, text=True)
    try:
        res = json.loads(r.stdout)
    except Exception:
        print(name, 'EVAL FAILED', r.stdout[-200:], r.stderr[-200:]); continue
    if 'error' in res:
        print(name, res); continue
    meta['detected_by'] = sorted(res['flagged'])
    meta['detected_by_target_check'] = meta['breaks_property'] in res['flagged']
    meta['reports'] = {k: v[:2] for k, v in res['flagged'].items()}
    meta['analysis_errors'] = res.get('analysis_errors', {})
    json.dump(meta, open(os.path.join(d, 'meta.json'), 'w'), indent=1, ensure_ascii=False)
    rows.append((name, meta['breaks_property'], meta['detected_by_target_check'], meta['detected_by'], sorted(meta['analysis_errors'])))
    print(f"{name:8} target={'YES' if meta['detected_by_target_check'] else 'no '} by={','.join(meta['detected_by']) or '-':40} exit2={','.join(sorted(meta['analysis_errors'])) or '-'}", flush=True)
t = sum(1 for r in rows if r[2]); a = sum(1 for r in rows if r[3])
print(f'{len(rows)} seeded changes: {t} flagged by the target property\'s check, {a} flagged by some check, {len(rows) - a} missed')
