#!/usr/bin/env python3
"""Apply a patch to a scratch worktree of /repo and report which checks flag it.
usage: eval_patch.py <patch.diff> [--props C01,C05] [--demo demo.py] [--tests]
Never touches /repo: uses (and creates if needed) the worktree /tmp/wt/eval."""
import argparse, json, os, subprocess, sys
WT = '/tmp/wt/eval'
VERIF = os.path.dirname(os.path.dirname(os.path.abspath(__file__)))

def sh(cmd, **kw):
    return subprocess.run(cmd, shell=True, capture_output=True, text=True, **kw)

def main():
    ap = argparse.ArgumentParser()
    ap.add_argument('patch'); ap.add_argument('--props', default=None); ap.add_argument('--demo', default=None)
    ap.add_argument('--tests', action='store_true')
    ap.add_argument('--wt', default=None, help='worktree to use (default /tmp/wt/eval)')
    a = ap.parse_args()
    global WT
    if a.wt:
        WT = a.wt
    if not os.path.isdir(WT):
        r = sh(f'git -C /repo worktree add -q --detach {WT} HEAD'); assert r.returncode == 0, r.stderr
    sh(f'git -C {WT} checkout -q --detach $(git -C /repo rev-parse HEAD) && git -C {WT} checkout -- . && git -C {WT} clean -fdq')
    out = {'patch': a.patch}
    if a.demo:
        r = sh(f'cd {WT} && PYTHONPATH={WT} /venv/bin/python {a.demo}'); out['demo_clean_exit'] = r.returncode
    r = sh(f'git -C {WT} apply {a.patch}')
    if r.returncode != 0:
        print(json.dumps({'error': 'patch does not apply', 'stderr': r.stderr[:300]})); return 2
    out['files'] = sh(f'git -C {WT} diff --stat').stdout.strip().splitlines()[:-1]
    if a.demo:
        r = sh(f'cd {WT} && PYTHONPATH={WT} /venv/bin/python {a.demo}'); out['demo_patched_exit'] = r.returncode
        out['demo_patched_tail'] = (r.stdout + r.stderr).strip().splitlines()[-2:]
    if a.tests:
        r = sh(f'python3 {VERIF}/tools/run_baseline.py {WT}'); out['tests'] = r.stdout.strip().splitlines()[0] if r.stdout else r.stderr[:200]
    props = a.props.split(',') if a.props else [f'C{n:02d}' for n in range(1, 21)]
    flagged, errors = {}, {}
    for p in props:
        r = sh(f'cd {VERIF} && ./check {p} --repo {WT} --no-evidence')
        if r.returncode == 1:
            flagged[p] = [l.strip()[:260] for l in r.stdout.splitlines() if l.startswith('  ')][:3]
        elif r.returncode == 2:
            errors[p] = [l for l in r.stdout.splitlines() if 'ANALYSIS-ERROR' in l][:1]
    out['flagged'] = flagged; out['analysis_errors'] = errors
    sh(f'git -C {WT} checkout -- . && git -C {WT} clean -fdq')
    print(json.dumps(out, indent=1, ensure_ascii=False))
    return 0

if __name__ == '__main__':
    sys.exit(main())
