#!/usr/bin/env python3
"""Regression matrix of the checkers against the patch corpora (in memory: no tree is modified).

  corpus/benign/<id>/patch.diff   behaviour-preserving refactorings: every check must stay silent (exit 0)
  seeded/<id>/patch.diff          property-breaking changes: the check of the target property must report a violation

usage: matrix.py [--benign] [--seeded] [--props C01,C05] [--only ID[,ID]] [-v]
"""
import argparse
import json
import os
import re
import shutil
import subprocess
import sys
import tempfile
from concurrent.futures import ProcessPoolExecutor

VERIF = os.path.join(os.path.dirname(os.path.abspath(__file__)), '..')
sys.path.insert(0, VERIF)
ALL = [f'C{n:02d}' for n in range(1, 21)]


def overlay_of(patch_path, repo='/repo'):
    with open(patch_path, encoding='utf-8') as f:
        text = f.read()
    files = sorted(set(re.findall(r'^diff --git a/(\S+) b/\S+', text, re.M)))
    with tempfile.TemporaryDirectory(prefix='kpsa-ov-') as td:
        for rel in files:
            src = os.path.join(repo, rel)
            dst = os.path.join(td, rel)
            os.makedirs(os.path.dirname(dst), exist_ok=True)
            if os.path.exists(src):
                shutil.copy(src, dst)
        r = subprocess.run(['patch', '-p1', '-s', '-d', td, '-i', os.path.abspath(patch_path)], capture_output=True, text=True)
        if r.returncode != 0:
            raise RuntimeError(f'{patch_path}: does not apply: {r.stdout} {r.stderr}')
        ov = {}
        for rel in files:
            p = os.path.join(td, rel)
            if os.path.exists(p):
                with open(p, encoding='utf-8') as f:
                    ov[rel] = f.read()
        return ov


def _job(args):
    kind, pid, patch, prop = args
    from kpsa.cli import run_property
    from kpsa.errors import AnalysisError
    try:
        ov = overlay_of(patch)
        ctx = run_property(prop, 'quick', '/repo', overlay=ov)
    except AnalysisError as e:
        return (kind, pid, prop, 'exit2', [str(e)[:300]])
    except Exception as e:
        return (kind, pid, prop, 'exit2', [f'internal {type(e).__name__}: {e}'[:300]])
    if ctx.violations:
        return (kind, pid, prop, 'exit1', [f'{v.rule} [{v.construct}] {v.function.rpartition(".")[2]}: {v.fact[:200]}' for v in ctx.violations])
    return (kind, pid, prop, 'exit0', [])


def main():
    ap = argparse.ArgumentParser()
    ap.add_argument('--benign', action='store_true')
    ap.add_argument('--seeded', action='store_true')
    ap.add_argument('--props', default=None)
    ap.add_argument('--only', default=None)
    ap.add_argument('-v', action='store_true')
    ap.add_argument('--jobs', type=int, default=16)
    a = ap.parse_args()
    if not a.benign and not a.seeded:
        a.benign = a.seeded = True
    props = a.props.split(',') if a.props else ALL
    only = set(a.only.split(',')) if a.only else None
    jobs = []
    if a.benign:
        d = os.path.join(VERIF, 'corpus', 'benign')
        for pid in sorted(os.listdir(d)):
            if only and pid not in only:
                continue
            for p in props:
                jobs.append(('benign', pid, os.path.join(d, pid, 'patch.diff'), p))
    if a.seeded:
        d = os.path.join(VERIF, 'seeded')
        for pid in sorted(os.listdir(d)):
            if only and pid not in only:
                continue
            mp = os.path.join(d, pid, 'meta.json')
            if not os.path.exists(mp):
                continue
            with open(mp) as f:
                meta = json.load(f)
            target = meta.get('breaks_property') or pid.split('-')[0]
            if a.props and target not in props:
                continue
            jobs.append(('seeded', pid, os.path.join(d, pid, 'patch.diff'), target))
    with ProcessPoolExecutor(max_workers=a.jobs) as ex:
        res = list(ex.map(_job, jobs, chunksize=1))
    bad = 0
    by = {}
    for kind, pid, prop, out, det in res:
        by.setdefault((kind, pid), []).append((prop, out, det))
    for (kind, pid), rs in sorted(by.items()):
        if kind == 'benign':
            fails = [(p, o, d) for p, o, d in rs if o != 'exit0']
            if fails:
                bad += 1
                print(f'BENIGN {pid}: ' + ' '.join(f'{p}:{o}' for p, o, _ in fails))
                if a.v:
                    for p, o, d in fails:
                        for line in d[:6]:
                            print(f'      {p} {line}')
        else:
            p, o, d = rs[0]
            if o != 'exit1':
                bad += 1
                print(f'SEEDED {pid}: {p}:{o} (missed)')
                if a.v:
                    for line in d[:4]:
                        print(f'      {line}')
    nb = len([k for k in by if k[0] == 'benign'])
    ns = len([k for k in by if k[0] == 'seeded'])
    print(f'{nb} benign, {ns} seeded patches x {len(props)} properties: {bad} patch(es) with a wrong outcome')
    return 1 if bad else 0


if __name__ == '__main__':
    sys.exit(main())
