#!/usr/bin/env python3
"""Confirm a sub-agent's behaviour-preserving refactoring and keep it under /verif/corpus/benign/<name>/.
usage: ingest_benign.py C07 benign5/1 --name C07-b13 --wt /tmp/wt/B07 [--src /tmp/wt/out]
Confirms in the refactorer's own scratch worktree (never /repo): the patch applies to HEAD, the transcript of equiv.py is byte-identical
on the clean and on the patched tree, the pinned baseline stays 276/276 with the patch.  First contact with the checks is measured
separately (tools/matrix.py --benign --only <name>)."""
import argparse, json, os, shutil, subprocess, sys
VERIF = os.path.dirname(os.path.dirname(os.path.abspath(__file__)))
def sh(c): return subprocess.run(c, shell=True, capture_output=True, text=True)
ap = argparse.ArgumentParser(); ap.add_argument('prop'); ap.add_argument('n'); ap.add_argument('--name', required=True); ap.add_argument('--wt', required=True)
ap.add_argument('--src', default='/tmp/wt/out')
a = ap.parse_args()
d = os.path.join(a.src, a.prop, a.n)
patch, eq, notes = (os.path.join(d, f) for f in ('patch.diff', 'equiv.py', 'notes.md'))
if not (os.path.exists(patch) and os.path.exists(eq)):
    print(json.dumps({'id': a.name, 'error': 'missing files'})); sys.exit(2)
wt = a.wt
sh(f'git -C {wt} checkout -q --detach $(git -C /repo rev-parse HEAD) && git -C {wt} checkout -- . && git -C {wt} clean -fdq')
c = sh(f'cd {wt} && PYTHONPATH={wt} /venv/bin/python {eq}')
r = sh(f'git -C {wt} apply {patch}')
if r.returncode != 0:
    print(json.dumps({'id': a.name, 'error': 'patch does not apply', 'stderr': r.stderr[:300]})); sys.exit(2)
p = sh(f'cd {wt} && PYTHONPATH={wt} /venv/bin/python {eq}')
t = sh(f'python3 {VERIF}/tools/run_baseline.py {wt}')
files = sh(f'git -C {wt} diff --stat').stdout.strip().splitlines()[:-1]
sh(f'git -C {wt} checkout -- . && git -C {wt} clean -fdq')
tests = t.stdout.strip().splitlines()[0] if t.stdout else ''
ok = c.stdout == p.stdout and c.returncode == p.returncode and c.returncode == 0 and c.stdout.count('\n') >= 10 and '276/276' in tests
out = {'id': a.name, 'equivalent': c.stdout == p.stdout and c.returncode == p.returncode, 'clean_exit': c.returncode, 'transcript_lines': c.stdout.count('\n'),
       'tests': tests, 'files': files, 'confirmed': ok}
print(json.dumps(out, indent=1, ensure_ascii=False))
if not ok:
    sys.exit(1)
dst = os.path.join(VERIF, 'corpus', 'benign', a.name)
os.makedirs(dst, exist_ok=True)
shutil.copy(patch, os.path.join(dst, 'patch.diff')); shutil.copy(eq, os.path.join(dst, 'equiv.py'))
if os.path.exists(notes):
    shutil.copy(notes, os.path.join(dst, 'notes.md'))
