#!/usr/bin/env python3
"""Regenerate the corpus tables of DESIGN.md (between the markers <!-- CORPUS-TABLES:BEGIN --> and <!-- CORPUS-TABLES:END -->):
every seeded change x every check (which rule reports it), every benign refactoring x every check (must be silent)."""
import json
import os
import re
import sys
from concurrent.futures import ProcessPoolExecutor

VERIF = os.path.join(os.path.dirname(os.path.abspath(__file__)), '..')
sys.path.insert(0, VERIF)
sys.path.insert(0, os.path.dirname(os.path.abspath(__file__)))
from matrix import _job, ALL  # noqa: E402


def title(d):
    p = os.path.join(d, 'notes.md')
    if os.path.exists(p):
        for line in open(p, encoding='utf-8'):
            if line.strip():
                t = re.sub(r'^#+\s*', '', line.strip())
                t = re.sub(r'^C\d\d\s*/\s*(change|refactoring)\s*\d+\s*[-–:]\s*', '', t)
                return t[:110].replace('|', '/')
    return ''


def main():
    jobs = []
    sd = os.path.join(VERIF, 'seeded')
    bd = os.path.join(VERIF, 'corpus', 'benign')
    own_only = '--own-only' in sys.argv      # seeded changes are evaluated by the check of their own property only (half the time)
    for pid in sorted(os.listdir(sd)):
        if os.path.exists(os.path.join(sd, pid, 'patch.diff')):
            tgt = json.load(open(os.path.join(sd, pid, 'meta.json'))).get('breaks_property') or pid.split('-')[0]
            for p in ([tgt] if own_only else ALL):
                jobs.append(('seeded', pid, os.path.join(sd, pid, 'patch.diff'), p))
    for pid in sorted(os.listdir(bd)):
        if os.path.exists(os.path.join(bd, pid, 'patch.diff')):
            for p in ALL:
                jobs.append(('benign', pid, os.path.join(bd, pid, 'patch.diff'), p))
    with ProcessPoolExecutor(max_workers=16) as ex:
        res = list(ex.map(_job, jobs, chunksize=2))
    by = {}
    for kind, pid, prop, out, det in res:
        by.setdefault((kind, pid), {})[prop] = (out, det)
    lines = []
    lines.append('| change | breaks | what was changed | reported by its own check (rule [construct]) | also reported by' + (' (not re-evaluated in this run)' if own_only else '') + ' | first contact (rounds 2 to 6) |')
    lines.append('|---|---|---|---|---|---|')
    n_hit = n = 0
    for (kind, pid), rs in sorted(by.items()):
        if kind != 'seeded':
            continue
        meta = json.load(open(os.path.join(sd, pid, 'meta.json')))
        target = meta.get('breaks_property') or pid.split('-')[0]
        out, det = rs[target]
        n += 1
        own = '**missed**' if out != 'exit1' else '; '.join(sorted({re.match(r'(\S+ \[[^\]]*\])', d).group(1) if re.match(r'(\S+ \[[^\]]*\])', d) else d[:40]
                                                                     for d in det}))[:230]
        n_hit += out == 'exit1'
        others = ' '.join(p for p in ALL if p != target and p in rs and rs[p][0] == 'exit1')
        e2 = ' '.join(f'{p}(exit 2)' for p in ALL if p in rs and rs[p][0] == 'exit2')
        if own_only:
            others = '(other checks: see first contact)' if False else ''
        fc = ''
        if re.search(r'-(?:[4-9]|1\d)$', pid):        # rounds 2 and 3: meta.json keeps what the checks said BEFORE anything was changed for it
            fc = ('own check' if meta.get('detected_by_target_check') else
                  ('only ' + ' '.join(meta.get('detected_by') or []) if meta.get('detected_by') else 'missed by all'))
            if target in (meta.get('analysis_errors') or {}):
                fc += ' (own check: exit 2)'
        lines.append(f'| {pid} | {target} | {title(os.path.join(sd, pid))} | {own.replace("|", "/")} | {others} {e2} | {fc} |')
    lines.append('')
    lines.append(f'{n_hit} of {n} seeded changes are reported (exit 1) by the check of the property they break.')
    lines.append('')
    lines.append('| refactoring | what was refactored | checks that are not silent |')
    lines.append('|---|---|---|')
    nb = nbad = 0
    for (kind, pid), rs in sorted(by.items()):
        if kind != 'benign':
            continue
        nb += 1
        bad = ' '.join(f'{p}:{rs[p][0]}' for p in ALL if rs[p][0] != 'exit0')
        nbad += bool(bad)
        lines.append(f'| {pid} | {title(os.path.join(bd, pid))} | {bad or "none (all 20 silent)"} |')
    lines.append('')
    lines.append(f'{nb - nbad} of {nb} behaviour-preserving refactorings leave all twenty checks silent (exit 0).')
    text = '\n'.join(lines)
    p = os.path.join(VERIF, 'DESIGN.md')
    s = open(p, encoding='utf-8').read()
    a, b = '<!-- CORPUS-TABLES:BEGIN -->', '<!-- CORPUS-TABLES:END -->'
    if a not in s:
        print('markers not found in DESIGN.md', file=sys.stderr)
        print(text)
        return 1
    s = s[:s.index(a) + len(a)] + '\n' + text + '\n' + s[s.index(b):]
    open(p, 'w', encoding='utf-8').write(s)
    print(f'seeded {n_hit}/{n}, benign silent {nb - nbad}/{nb}')
    return 0


if __name__ == '__main__':
    sys.exit(main())
