#!/usr/bin/env python3
"""Freeze the anchor table: every function (nested functions and called local lambdas included), class attribute and
module-level constant of the kernpy tree the rules were written against.  Anything NOT listed is treated as glue by
kpsa.normalize (inlined / unrolled) - see DESIGN.md.  Run only when the rules are re-based on a new upstream tree."""
import ast
import os
import sys

sys.path.insert(0, os.path.join(os.path.dirname(os.path.abspath(__file__)), '..'))
from kpsa.model import Program, FuncInfo, walk_local  # noqa: E402


def main():
    root = sys.argv[1] if len(sys.argv) > 1 else '/repo'
    prog = Program(root, normalize=False)
    names = set()

    def nested(fi):
        for n in walk_local(fi.node):
            if isinstance(n, (ast.FunctionDef, ast.AsyncFunctionDef)) and n is not fi.node:
                sub = FuncInfo(fi.module, n, fi.cls, outer=fi)
                names.add(sub.qualname)
                nested(sub)
            elif isinstance(n, ast.Assign) and isinstance(n.value, ast.Lambda):
                for t in n.targets:
                    if isinstance(t, ast.Name):
                        names.add(f'{fi.qualname}.<locals>.{t.id}')

    for q, fi in prog.functions.items():
        names.add(fi.qualname)
        nested(fi)
    for c in prog.classes.values():
        for a in c.attrs:
            names.add(f'{c.qualname}.{a}')
    for m in prog.modules.values():
        for n, bs in m.scope.items():
            if any(b.kind == 'assign' for b in bs):
                names.add(f'{m.name}.{n}')
    out = os.path.join(os.path.dirname(os.path.abspath(__file__)), '..', 'kpsa', 'known_names.txt')
    with open(out, 'w', encoding='utf-8') as f:
        f.write('# anchors: names of the kernpy tree the rules were written against (tools/gen_known_names.py)\n')
        for n in sorted(names):
            f.write(n + '\n')
    print(len(names), 'names')
    dg = os.path.join(os.path.dirname(os.path.abspath(__file__)), '..', 'kpsa', 'known_digests.txt')
    with open(dg, 'w', encoding='utf-8') as f:
        f.write('# body digests of the anchor functions (rename recovery, see kpsa/model.py); tools/gen_known_names.py\n')
        for q, fi in sorted(prog.functions.items()):
            if fi.module.generated or fi.module.legacy or q.endswith('.setter') or isinstance(fi.node, ast.Lambda):
                continue
            f.write(f'{q}\t{Program.body_digest(fi.node)}\n')
    from kpsa.model import local_profile
    lc = os.path.join(os.path.dirname(os.path.abspath(__file__)), '..', 'kpsa', 'known_locals.txt')
    with open(lc, 'w', encoding='utf-8') as f:
        f.write('# local variables of the anchor functions, in order of first binding, with a coarse signature (local-name recovery, see kpsa/model.py)\n')
        for q, fi in sorted(prog.functions.items()):
            if fi.module.generated or fi.module.legacy or isinstance(fi.node, ast.Lambda):
                continue
            prof = local_profile(fi.node)
            if prof:
                f.write(q + '\t' + '\x1e'.join(f'{n}\x1f{sg}' for n, sg in prof) + '\n')


main()
