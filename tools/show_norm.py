#!/usr/bin/env python3
"""Debug aid: print the normal form of functions, optionally with a corpus patch applied in memory.
usage: show_norm.py [--patch P | --id CORPUS-ID] qualname..."""
import ast, os, sys
HERE = os.path.dirname(os.path.abspath(__file__))
sys.path.insert(0, os.path.join(HERE, '..'))
sys.path.insert(0, HERE)
from kpsa.model import Program
from matrix import overlay_of

args = sys.argv[1:]
patch = None
while args and args[0].startswith('--'):
    if args[0] == '--patch':
        patch = os.path.abspath(args[1])
    elif args[0] == '--id':
        for d in ('corpus/benign', 'seeded'):
            p = os.path.join(HERE, '..', d, args[1], 'patch.diff')
            if os.path.exists(p):
                patch = p
    args = args[2:]
p = Program('/repo', overlay=overlay_of(patch) if patch else None)
print('#', p.normalizer.stats, sorted(p.normalizer.inlined_names))
for q in args:
    print(ast.unparse(p.func(q).node))
    print()
