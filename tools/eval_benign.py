#!/usr/bin/env python3
"""Run the twenty quick checks on a behaviour-preserving refactoring (scratch worktree /tmp/wt/eval, never /repo).
usage: eval_benign.py C04 2 [--verify]   -> prints checks that raise an alarm (exit 1) or cannot analyse (exit 2)"""
import argparse, json, os, subprocess, sys
VERIF = os.path.dirname(os.path.dirname(os.path.abspath(__file__)))
def sh(c): return subprocess.run(c, shell=True, capture_output=True, text=True)
ap = argparse.ArgumentParser(); ap.add_argument('prop'); ap.add_argument('n'); ap.add_argument('--verify', action='store_true'); ap.add_argument('--src', default='/tmp/wt/out')
a = ap.parse_args()
d = os.path.join(a.src, a.prop, 'benign', a.n); patch = os.path.join(d, 'patch.diff')
r = sh(f'{sys.executable} {VERIF}/tools/eval_patch.py {patch}')
res = json.loads(r.stdout)
out = {'id': f'{a.prop}-b{a.n}', 'files': res.get('files'), 'false_alarms': res.get('flagged', {}), 'analysis_errors': res.get('analysis_errors', {}), 'error': res.get('error')}
if a.verify:
    wt = f'/tmp/wt/{a.prop}'; eq = os.path.join(d, 'equiv.py')
    sh(f'git -C {wt} checkout -- . && git -C {wt} clean -fdq')
    c = sh(f'cd {wt} && PYTHONPATH={wt} /venv/bin/python {eq}')
    sh(f'git -C {wt} apply {patch}')
    p = sh(f'cd {wt} && PYTHONPATH={wt} /venv/bin/python {eq}')
    t = sh(f'python3 {VERIF}/tools/run_baseline.py {wt}')
    sh(f'git -C {wt} checkout -- . && git -C {wt} clean -fdq')
    out['equivalent'] = (c.stdout == p.stdout and c.returncode == p.returncode); out['transcript_lines'] = c.stdout.count('\n'); out['tests'] = t.stdout.strip().splitlines()[0] if t.stdout else ''
print(json.dumps(out, indent=1, ensure_ascii=False))
