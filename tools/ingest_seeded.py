#!/usr/bin/env python3
"""Confirm a sub-agent's seeded change and keep it under /verif/seeded/<id>/.
usage: ingest_seeded.py C07 2 [--name C07-b] [--src /tmp/wt/out]
Confirms in the scratch worktree /tmp/wt/eval (never /repo): patch applies to HEAD, demo exits 0 on the clean tree and
non-zero with the patch, the pinned baseline stays 276/276 with the patch; then runs all twenty quick checks on the patched tree."""
import argparse, json, os, shutil, subprocess, sys
VERIF = os.path.dirname(os.path.dirname(os.path.abspath(__file__)))

def main():
    ap = argparse.ArgumentParser()
    ap.add_argument('prop'); ap.add_argument('n'); ap.add_argument('--src', default='/tmp/wt/out'); ap.add_argument('--name', default=None); ap.add_argument('--wt', default=None)
    a = ap.parse_args()
    d = os.path.join(a.src, a.prop, a.n)
    patch, demo, notes = (os.path.join(d, f) for f in ('patch.diff', 'demo.py', 'notes.md'))
    for f in (patch, demo):
        if not os.path.exists(f):
            print('missing', f); return 2
    wt = a.wt or f'/tmp/wt/{a.prop}'   # the demos assert that kernpy is imported from the seeder's own worktree
    r = subprocess.run([sys.executable, os.path.join(VERIF, 'tools/eval_patch.py'), patch, '--demo', demo, '--tests', '--wt', wt], capture_output=True, text=True)
    try:
        res = json.loads(r.stdout)
    except Exception:
        print('eval failed', r.stdout[-500:], r.stderr[-500:]); return 2
    ok = res.get('demo_clean_exit') == 0 and res.get('demo_patched_exit') not in (0, None) and '276/276' in res.get('tests', '')
    name = a.name or f'{a.prop}-{a.n}'
    res['confirmed'] = ok
    print(json.dumps({k: res[k] for k in ('confirmed', 'demo_clean_exit', 'demo_patched_exit', 'tests', 'files', 'flagged', 'analysis_errors') if k in res}, indent=1, ensure_ascii=False))
    if not ok:
        return 1
    out = os.path.join(VERIF, 'seeded', name)
    os.makedirs(out, exist_ok=True)
    shutil.copy(patch, os.path.join(out, 'patch.diff')); shutil.copy(demo, os.path.join(out, 'demo.py'))
    if os.path.exists(notes):
        shutil.copy(notes, os.path.join(out, 'notes.md'))
    head = subprocess.run('git -C /repo rev-parse --short HEAD', shell=True, capture_output=True, text=True).stdout.strip()
    meta = {
        'id': name, 'breaks_property': a.prop, 'origin': 'independent sub-agent given only the property record and a scratch worktree',
        'repo_head': head,
        'needs_to_manifest': open(notes).read().strip()[:1500] if os.path.exists(notes) else '',
        'what_was_run': [
            f'git apply patch.diff in the scratch worktree {wt} of /repo at repo_head (never in /repo); the demo asserts that path',
            'PYTHONPATH=<worktree> /venv/bin/python demo.py on the clean tree (exit 0) and on the patched tree (exit != 0)',
            'tools/run_baseline.py <worktree>: pinned suite, 276/276 stable tests pass with the patch',
            './check Cnn --repo <worktree> for all twenty properties',
        ],
        'demo_clean_exit': res['demo_clean_exit'], 'demo_patched_exit': res['demo_patched_exit'], 'demo_patched_tail': res.get('demo_patched_tail'),
        'tests_with_patch': res['tests'], 'files_touched': res.get('files'),
        'detected_by': sorted(res['flagged']), 'detected_by_target_check': a.prop in res['flagged'],
        'reports': res['flagged'], 'analysis_errors': res.get('analysis_errors', {}),
    }
    json.dump(meta, open(os.path.join(out, 'meta.json'), 'w'), indent=1, ensure_ascii=False)
    return 0

if __name__ == '__main__':
    sys.exit(main())
